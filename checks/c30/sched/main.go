// C30 (E-SCHED part): the saved session pairs a DC with a key confirmed for that DC even when a session
// notification races with a migration.
package main

import (
	"context"
	"encoding/json"
	"fmt"

	"github.com/gotd/td/crypto"
	"github.com/gotd/td/internal/verif/kit"
	"github.com/gotd/td/internal/verif/lib/sx"
	"github.com/gotd/td/internal/verif/shim/vctx"
	"github.com/gotd/td/internal/verif/shim/vsched"
	"github.com/gotd/td/mtproto"
	"github.com/gotd/td/session"
	"github.com/gotd/td/telegram"
)

type params struct {
	PFS    bool   `json:"pfs"`
	Second bool   `json:"second"` // the new primary (after the migration) also reports its session
	Order  string `json:"order"`  // "race": notification and migration are concurrent
}

func mkKey(name string) crypto.AuthKey {
	var k crypto.Key
	copy(k[:], kit.Pattern("stream:c30s-"+name, 256))
	return k.WithID()
}

func body(p params, o *sx.Obs) {
	st := &session.StorageMemory{}
	c := telegram.NewClient(1, "hash", telegram.Options{SessionStorage: st, EnablePFS: p.PFS, DC: 2, Random: kit.NewStream(3030), NoUpdates: true, Clock: sx.Clock{}})
	c.VerifC30Prepare(vctx.Background())
	ctx := vctx.Background()
	notify := func(v *telegram.VerifC30Conn, dc int, name string) {
		s := mtproto.Session{ID: 7, Key: mkKey(name), Salt: int64(1000 + dc)}
		if p.PFS {
			s.PermKey = mkKey("perm-" + name)
		}
		if err := v.Init(ctx, dc); err != nil {
			o.Log("init-error %v", err)
		}
		o.Log("told dc=%d key=%s", dc, name)
		if err := v.OnSession(s); err != nil {
			o.Log("onsession-error %v", err)
		}
	}
	old := c.VerifC30Primary()
	var g sx.Group
	g.Go("notify-old", func() { notify(old, 2, "k2") })
	g.Go("migrate", func() {
		nw := c.VerifC30Migrate(4)
		o.Log("migrated")
		if p.Second {
			notify(nw, 4, "k4")
		}
	})
	g.Wait()
	raw, err := st.Bytes(nil)
	if err != nil {
		o.Log("stored none")
		return
	}
	var f struct {
		Data struct {
			DC        int
			AuthKeyID []byte
			Salt      int64
		}
	}
	if err := json.Unmarshal(raw, &f); err != nil {
		o.Log("stored unreadable %v", err)
		return
	}
	name := "unknown"
	for _, n := range []string{"k2", "k4", "perm-k2", "perm-k4"} {
		k := mkKey(n)
		if string(k.ID[:]) == string(f.Data.AuthKeyID) {
			name = n
		}
	}
	o.Log("stored dc=%d key=%s salt=%d", f.Data.DC, name, f.Data.Salt)
	_ = context.Background
}

func check(p params, o *sx.Obs, x *vsched.Sched) kit.Result {
	if x.StepLimit {
		return kit.Result{Outcome: "step-limit", Trivial: true}
	}
	if x.Deadlock {
		return kit.Bad("stuck", "blocked: %v; %s", x.Blocked, o.String())
	}
	if o.Has("init-error") || o.Has("onsession-error") || o.Has("stored unreadable") {
		return kit.Bad("harness", "%s", o.String())
	}
	for _, e := range o.Events {
		var dc int
		var key string
		var salt int64
		if n, _ := fmt.Sscanf(e, "stored dc=%d key=%s salt=%d", &dc, &key, &salt); n == 3 {
			want := fmt.Sprintf("k%d", dc)
			if p.PFS {
				want = "perm-" + want
			}
			if key != want {
				return kit.Bad("saved-key-of-other-dc", "the stored session pairs DC %d with key %q; the key confirmed for that DC is %q (%s)", dc, key, want, o.String())
			}
			if salt != int64(1000+dc) {
				return kit.Bad("saved-salt-of-other-dc", "the stored session pairs DC %d with salt %d", dc, salt)
			}
			return kit.OKo(fmt.Sprintf("stored dc=%d", dc))
		}
	}
	return kit.OKo("stored none")
}

func main() {
	kit.Main("C30", "model_checking", func(c *kit.Ctx) {
		scs := []params{{false, false, "race"}, {true, false, "race"}, {false, true, "race"}, {true, true, "race"}}
		mk := func(p params) sx.Scenario[params] {
			return sx.Scenario[params]{Name: "session-vs-migrate", Params: p, MaxSteps: 6000, FreeBound: 6, Body: body, Check: check}
		}
		if c.Replaying() {
			sx.Explore(c, mk(scs[0]), 0, 0, 1)
			return
		}
		bound := 2
		if c.Thorough() {
			bound = 3
		}
		c.Rule("E-SCHED part: a session notification of the primary connection (real manager.Conn + telegram.Client.onSession/saveSession over memory storage) "+
			"races with a migration to another DC (session.Migrate + replaceConn), optionally followed by the new primary's notification, PFS on/off; every "+
			"schedule with <= %d preemptions; oracle: whatever ends up in storage pairs the DC id with the (permanent) key and salt announced for that DC.", bound)
		if c.Shard < 0 {
			return
		}
		sx.Explore(c, mk(scs[c.Shard%len(scs)]), bound, c.Shard/len(scs), c.Shards/len(scs))
	})
}
