// C30: the session the client persists pairs the DC id with the auth key (permanent key under
// PFS) and salt of a connection to that same DC that the server confirmed; a stored session whose
// key id does not match its key is refused on load instead of being used.
package main

import (
	"context"
	"encoding/json"
	"fmt"
	"os"
	"sort"
	"strconv"
	"strings"

	"github.com/gotd/td/crypto"
	"github.com/gotd/td/internal/verif/kit"
	"github.com/gotd/td/internal/verif/lib/refcrypto"
	"github.com/gotd/td/mtproto"
	"github.com/gotd/td/pool"
	"github.com/gotd/td/session"
	"github.com/gotd/td/telegram"
)

// ---------- reference view of the stored session (format of session/session.go, stdlib JSON) ----------

type storedData struct {
	DC        int
	Addr      string
	AuthKey   []byte
	AuthKeyID []byte
	Salt      int64
}

type storedFile struct {
	Version int
	Data    storedData
}

func readStored(st *session.StorageMemory) (*storedFile, []byte, error) {
	raw, err := st.Bytes(nil)
	if err != nil {
		return nil, nil, nil // empty
	}
	var f storedFile
	if err := json.Unmarshal(raw, &f); err != nil {
		return nil, raw, err
	}
	return &f, raw, nil
}

func writeStored(st *session.StorageMemory, d storedData) error {
	raw, err := json.Marshal(map[string]any{"Version": 1, "Data": map[string]any{
		"Config": map[string]any{"ThisDC": d.DC}, "DC": d.DC, "Addr": d.Addr, "AuthKey": d.AuthKey, "AuthKeyID": d.AuthKeyID, "Salt": d.Salt}})
	if err != nil {
		return err
	}
	return st.StoreSession(context.Background(), raw)
}

// ---------- keys ----------

type keyBook struct{ names map[string]string }

func (b *keyBook) make(name string) crypto.AuthKey {
	raw := kit.Pattern("stream:c30-"+name, 256)
	var k crypto.AuthKey
	copy(k.Value[:], raw)
	copy(k.ID[:], refcrypto.AuthKeyID(raw))
	b.names[string(raw)] = name
	return k
}

func (b *keyBook) name(v []byte) string {
	zero := true
	for _, x := range v {
		if x != 0 {
			zero = false
		}
	}
	if zero {
		return "-"
	}
	if n, ok := b.names[string(v)]; ok {
		return n
	}
	return "?" + kit.Hex(v[:4])
}

// ---------- model of one scenario ----------

type ev struct {
	PFS  string `json:"pfs,omitempty"`  // first event: "on" | "off"
	Op   string `json:"op,omitempty"`   // sess | init | open | migrate | restart
	Conn string `json:"conn,omitempty"` // P (current primary) | Pold (primary before the last migration) | P2 (second conn, same DC) | O (data conn to DC 4) | C (CDN conn to DC 203)
	DC   int    `json:"dc,omitempty"`   // migrate target
}

func (e ev) String() string {
	switch {
	case e.PFS != "":
		return "pfs=" + e.PFS
	case e.Op == "migrate":
		return fmt.Sprintf("migrate(%d)", e.DC)
	case e.Conn != "":
		return e.Op + "(" + e.Conn + ")"
	}
	return e.Op
}

const (
	primaryDC = 2
	otherDC   = 4
	cdnDC     = 203
)

type mconn struct {
	v      *telegram.VerifC30Conn
	name   string
	inited bool
	nSess  int
	key    crypto.AuthKey // key the server confirms for this connection (temporary key under PFS)
	perm   crypto.AuthKey // permanent key under PFS, zero otherwise
}

type announce struct {
	dc   int
	conn string
	key  string // name of the key to persist: permanent under PFS
	temp string // name of the temporary key ("" without PFS)
	salt int64
}

type world struct {
	pfs    bool
	store  *session.StorageMemory
	client *telegram.Client
	book   *keyBook
	conns  map[string]*mconn
	gen    int
	told   []announce
	ctx    context.Context

	primaryBefore int // primary DC before the event being applied
}

func newClient(pfs bool, st *session.StorageMemory) *telegram.Client {
	c := telegram.NewClient(1, "hash", telegram.Options{
		SessionStorage: st,
		EnablePFS:      pfs,
		DC:             primaryDC,
		Random:         kit.NewStream(3030),
		NoUpdates:      true,
	})
	c.VerifC30Prepare(context.Background())
	return c
}

func newWorld(pfs bool) *world {
	w := &world{pfs: pfs, store: &session.StorageMemory{}, book: &keyBook{names: map[string]string{}}, conns: map[string]*mconn{}, ctx: context.Background()}
	w.client = newClient(pfs, w.store)
	w.adopt("P", w.client.VerifC30Primary())
	return w
}

// adopt decides which keys the (simulated) server side confirms for a fresh connection: the key the
// client handed down if there is one, a new one otherwise; under PFS always a new temporary key.
func (w *world) adopt(slot string, v *telegram.VerifC30Conn) *mconn {
	w.gen++
	m := &mconn{v: v, name: fmt.Sprintf("%s#%d", slot, w.gen)}
	if v.PFS {
		m.perm = v.GivenPermKey
		if m.perm.Zero() {
			m.perm = v.GivenKey
		}
		if m.perm.Zero() {
			m.perm = w.book.make("perm:" + m.name)
		}
		m.key = w.book.make("temp:" + m.name)
	} else {
		m.key = v.GivenKey
		if m.key.Zero() {
			m.key = w.book.make("key:" + m.name)
		}
	}
	w.conns[slot] = m
	return m
}

func (w *world) conn(slot string) *mconn {
	if m, ok := w.conns[slot]; ok {
		return m
	}
	switch slot {
	case "P2":
		return w.adopt(slot, w.client.VerifC30OpenSameDC())
	case "O":
		return w.adopt(slot, w.client.VerifC30OpenDC(otherDC, false))
	case "C":
		return w.adopt(slot, w.client.VerifC30OpenDC(cdnDC, true))
	}
	return nil
}

func (w *world) apply(e ev) kit.Result {
	before, _ := w.store.Bytes(nil)
	w.primaryBefore = w.client.VerifC30Session().DC
	switch e.Op {
	case "open":
		if w.conn(e.Conn) == nil {
			return kit.Bad("bad-witness", "cannot open %q", e.Conn)
		}
	case "sess":
		m := w.conn(e.Conn)
		if m == nil {
			return kit.Result{Trivial: true, Outcome: "no-such-conn"}
		}
		m.nSess++
		// two alternating salts per connection keep the state space finite while a stale salt stays visible
		salt := int64(kitHash(m.name))%1_000_000*10 + int64(m.nSess%2)
		a := announce{dc: m.v.DC, conn: m.name, key: w.book.name(m.key.Value[:]), salt: salt}
		if !m.perm.Zero() {
			a.temp = a.key
			a.key = w.book.name(m.perm.Value[:])
		}
		w.told = append(w.told, a)
		if err := m.v.OnSession(mtproto.Session{ID: int64(7000 + w.gen), Key: m.key, Salt: salt, PermKey: m.perm}); err != nil {
			return kit.Bad("harness", "OnSession: %v", err)
		}
	case "init":
		m := w.conn(e.Conn)
		if m == nil {
			return kit.Result{Trivial: true, Outcome: "no-such-conn"}
		}
		if m.inited {
			return kit.Result{Trivial: true, Outcome: "already-inited"}
		}
		m.inited = true
		if err := m.v.Init(w.ctx, m.v.DC); err != nil {
			return kit.Bad("harness", "init: %v", err)
		}
	case "migrate":
		if old, ok := w.conns["P"]; ok {
			w.conns["Pold"] = old
		}
		delete(w.conns, "P2") // connections of the old pool are closed by the restart
		w.adopt("P", w.client.VerifC30Migrate(e.DC))
	case "restart":
		raw, _ := w.store.Bytes(nil)
		st := &session.StorageMemory{}
		if len(raw) > 0 {
			_ = st.StoreSession(w.ctx, raw)
		}
		w.store = st
		w.client = newClient(w.pfs, st)
		f, _, _ := readStored(st)
		err := w.client.VerifC30Restore(w.ctx)
		if err != nil && f != nil && string(refcrypto.AuthKeyID(pad256(f.Data.AuthKey))) == string(f.Data.AuthKeyID) {
			return kit.Bad("own-session-refused", "the session the client saved itself (DC %d, key %s) is refused on load: %v", f.Data.DC, w.book.name(f.Data.AuthKey), err)
		}
		w.conns = map[string]*mconn{}
		w.adopt("P", w.client.VerifC30Primary())
	default:
		return kit.Bad("bad-witness", "op %q", e.Op)
	}
	return w.judge(before, e)
}

func kitHash(s string) uint32 {
	h := uint32(2166136261)
	for i := 0; i < len(s); i++ {
		h = (h ^ uint32(s[i])) * 16777619
	}
	return h
}

func pad256(b []byte) []byte {
	out := make([]byte, 256)
	copy(out, b)
	return out
}

// judge is the first sentence of the statement applied to the storage content after an event.
func (w *world) judge(before []byte, e ev) kit.Result {
	f, raw, err := readStored(w.store)
	if err != nil {
		return kit.Bad("stored-unreadable", "storage content is not the documented JSON: %v", err)
	}
	if f == nil {
		return kit.OKo("nothing-stored")
	}
	d := f.Data
	kname := w.book.name(d.AuthKey)
	if f.Version != 1 {
		return kit.Bad("stored-version", "version %d", f.Version)
	}
	if len(d.AuthKey) != 256 || string(refcrypto.AuthKeyID(d.AuthKey)) != string(d.AuthKeyID) {
		return kit.Bad("stored-key-id-mismatch", "stored key %s (%d bytes) with key id %x, SHA1-based id is %x", kname, len(d.AuthKey), d.AuthKeyID, refcrypto.AuthKeyID(pad256(d.AuthKey)))
	}
	var sameKey []announce
	for _, a := range w.told {
		if a.dc == d.DC && a.key == kname {
			sameKey = append(sameKey, a)
		}
	}
	if len(sameKey) == 0 {
		for _, a := range w.told {
			if a.temp != "" && a.temp == kname {
				return kit.Bad("saved-temporary-key", "after %v: stored session DC %d holds the temporary key %s of connection %s; under PFS the permanent key %s must be stored", e, d.DC, kname, a.conn, a.key)
			}
		}
		for _, a := range w.told {
			if a.key == kname {
				return kit.Bad("saved-key-of-other-dc", "after %v: stored session pairs DC %d with key %s, which the server confirmed for DC %d (connection %s)", e, d.DC, kname, a.dc, a.conn)
			}
		}
		return kit.Bad("saved-unconfirmed-key", "after %v: stored session DC %d holds key %s which no connection to that DC announced (announced: %s)", e, d.DC, kname, w.toldKey())
	}
	okSalt := false
	for _, a := range sameKey {
		for _, b := range w.told {
			if b.conn == a.conn && b.salt == d.Salt {
				okSalt = true
			}
		}
	}
	if !okSalt {
		return kit.Bad("saved-salt-not-of-connection", "after %v: stored session DC %d key %s has salt %d which the connection(s) with that key never announced (announced: %s)", e, d.DC, kname, d.Salt, w.toldKey())
	}
	changed := string(raw) != string(before)
	if changed {
		// title of the property: the saved session is the one of the *primary* DC; a save triggered by
		// a non-primary / CDN connection must not replace it.
		// (the primary DC before the event: only migration changes it, and migration does not save)
		if p := w.primaryBefore; d.DC != p {
			return kit.Bad("saved-non-primary-dc", "after %v: the client saved a session for DC %d while its primary DC is %d", e, d.DC, p)
		}
		return kit.OKo("saved")
	}
	return kit.OKo("unchanged")
}

func (w *world) toldKey() string {
	var s []string
	for _, a := range w.told {
		s = append(s, fmt.Sprintf("%d/%s/%s/%d/%s", a.dc, a.conn, a.key, a.salt, a.temp))
	}
	sort.Strings(s)
	// duplicates carry no information
	var out []string
	for i, x := range s {
		if i == 0 || s[i-1] != x {
			out = append(out, x)
		}
	}
	return strings.Join(out, " ")
}

func (w *world) sessKey(s pool.Session) string {
	return fmt.Sprintf("%d/%s/%d", s.DC, w.book.name(s.AuthKey.Value[:]), s.Salt)
}

func (w *world) key() string {
	var parts []string
	parts = append(parts, fmt.Sprintf("pfs=%v", w.pfs))
	if f, _, _ := readStored(w.store); f != nil {
		parts = append(parts, fmt.Sprintf("stored=%d/%s/%d", f.Data.DC, w.book.name(f.Data.AuthKey), f.Data.Salt))
	}
	parts = append(parts, "mem="+w.sessKey(w.client.VerifC30Session()))
	for _, cdn := range []bool{false, true} {
		m := w.client.VerifC30DCSessions(cdn)
		var dcs []int
		for k := range m {
			dcs = append(dcs, k)
		}
		sort.Ints(dcs)
		for _, k := range dcs {
			parts = append(parts, fmt.Sprintf("dc[%v]%d=%s", cdn, k, w.sessKey(m[k])))
		}
	}
	var slots []string
	for s := range w.conns {
		slots = append(slots, s)
	}
	sort.Strings(slots)
	for _, s := range slots {
		m := w.conns[s]
		parts = append(parts, fmt.Sprintf("%s:%s dc=%d init=%v n=%d/%d key=%s perm=%s", s, m.name, m.v.DC, m.inited, min(m.nSess, 2), m.nSess%2, w.book.name(m.key.Value[:]), w.book.name(m.perm.Value[:])))
	}
	parts = append(parts, "told="+w.toldKey())
	return strings.Join(parts, "; ")
}

func (w *world) next() []ev {
	var n []ev
	for _, s := range []string{"P", "P2", "O", "C", "Pold"} {
		m, ok := w.conns[s]
		if s == "Pold" && !ok {
			continue
		}
		n = append(n, ev{Op: "sess", Conn: s})
		if !ok || !m.inited {
			n = append(n, ev{Op: "init", Conn: s})
		}
		if !ok && (s == "P2" || s == "O") {
			n = append(n, ev{Op: "open", Conn: s})
		}
	}
	p := w.client.VerifC30Session().DC
	for _, d := range []int{otherDC, 5} {
		if d != p {
			n = append(n, ev{Op: "migrate", DC: d})
		}
	}
	if raw, _ := w.store.Bytes(nil); len(raw) > 0 {
		n = append(n, ev{Op: "restart"})
	}
	return n
}

func build(h []ev) kit.Step[ev] {
	if len(h) == 0 {
		return kit.Step[ev]{Key: "root", Next: []ev{{PFS: "off"}, {PFS: "on"}}, Res: kit.Result{Trivial: true}}
	}
	w := newWorld(h[0].PFS == "on")
	res := kit.OKo("start")
	for _, e := range h[1:] {
		res = w.apply(e)
		if res.Class != "" {
			return kit.Step[ev]{Key: "violation", Res: res}
		}
	}
	return kit.Step[ev]{Key: w.key(), Next: w.next(), Res: res}
}

// ---------- load ----------

type wLoad struct {
	PFS bool   `json:"pfs"`
	Mut string `json:"mutation"` // none | key-bit | id-bit | key-len | id-len | key-zero | id-zero | swap-id
	N   int    `json:"n"`
}

func evalLoad(w wLoad) kit.Result {
	raw := kit.Pattern("stream:c30-load-key", 256)
	key := append([]byte{}, raw...)
	id := refcrypto.AuthKeyID(raw)
	switch w.Mut {
	case "none":
	case "key-bit":
		key[w.N/8] ^= 1 << (w.N % 8)
	case "id-bit":
		id[w.N/8] ^= 1 << (w.N % 8)
	case "key-len":
		if w.N <= len(key) {
			key = key[:w.N]
		} else {
			key = append(key, make([]byte, w.N-len(key))...)
			key[len(key)-1] = 0x5a
		}
	case "id-len":
		if w.N <= len(id) {
			id = id[:w.N]
		} else {
			id = append(id, make([]byte, w.N-len(id))...)
			id[len(id)-1] = 0x5a
		}
	case "key-zero":
		key = make([]byte, 256)
	case "id-zero":
		id = make([]byte, 8)
	case "swap-id":
		id = refcrypto.AuthKeyID(kit.Pattern("stream:c30-other-key", 256))
	default:
		return kit.Bad("bad-witness", "mutation %q", w.Mut)
	}
	st := &session.StorageMemory{}
	if err := writeStored(st, storedData{DC: 4, AuthKey: key, AuthKeyID: id, Salt: 4242}); err != nil {
		return kit.Bad("harness", "%v", err)
	}
	c := newClient(w.PFS, st)
	before := c.VerifC30Session()
	err := c.VerifC30Restore(context.Background())
	after := c.VerifC30Session()

	// does the stored key id match the stored key? "its key": the stored bytes, or the bytes the client
	// will use (first 256, zero padded) where the length is not 256 — where the two differ both are accepted.
	idOf := func(k []byte) bool { return string(refcrypto.AuthKeyID(k)) == string(id) }
	used := pad256(key)
	if len(key) > 256 {
		used = key[:256]
	}
	matchRaw, matchUsed := idOf(key), idOf(used) || string(refcrypto.AuthKeyID(used)) == string(pad8(id))
	switch {
	case !matchRaw && !matchUsed:
		if err == nil {
			return kit.Bad("mismatching-key-id-loaded", "stored session with %s(%d) loaded without error; the client now holds key %s… for DC %d", w.Mut, w.N, kit.Hex(after.AuthKey.Value[:4]), after.DC)
		}
		if after != before {
			return kit.Bad("refused-but-used", "restore returned %v but the in-memory session changed to DC %d key %s…", err, after.DC, kit.Hex(after.AuthKey.Value[:4]))
		}
		return kit.OKo("refused")
	case matchRaw && matchUsed:
		if err != nil {
			return kit.Bad("valid-session-refused", "a stored session whose key id matches its key is refused: %v", err)
		}
		if after.DC != 4 || string(after.AuthKey.Value[:]) != string(used) || after.Salt != 4242 {
			return kit.Bad("loaded-session-differs", "loaded session is DC %d salt %d key %s…, stored DC 4 salt 4242 key %s…", after.DC, after.Salt, kit.Hex(after.AuthKey.Value[:4]), kit.Hex(used[:4]))
		}
		return kit.OKo("loaded")
	}
	if err != nil {
		return kit.OKo("ambiguous:refused")
	}
	return kit.OKo("ambiguous:loaded")
}

func pad8(b []byte) []byte {
	out := make([]byte, 8)
	copy(out, b)
	return out
}

func main() {
	kit.Main("C30", "model_checking", func(c *kit.Ctx) {
		load := kit.NewFamily(c, "load", evalLoad)
		depth := 6
		if c.Thorough() {
			depth = 7
		}
		if v, err := strconv.Atoi(os.Getenv("VERIF_C30_DEPTH")); err == nil {
			depth = v
		}
		st := kit.BFS(c, "save", depth, 0, build)
		if c.Replaying() {
			return
		}
		c.Set("save_states", st.States)
		c.Rule("save: BFS to depth %d (first event: PFS on/off) over a real telegram.Client with in-memory session storage whose connections are real manager.Conn objects created by the client "+
			"(primary via NewClient/createPrimaryConn, second connection to the same DC via createConn as Client.Pool does, data connection to DC 4 and CDN connection to DC 203 as the creator in Client.dc does) "+
			"with the MTProto layer replaced by a stand-in; events: new session on a connection (before or after its initConnection/help.getConfig completed, repeated), init of a connection, early open, "+
			"migration to DC 4 / DC 5 (session.Migrate + new primary connection), late events from the previous primary, process restart (new Client restoring from the storage). After every event the stored "+
			"(DC, key, key id, salt) must be a key (permanent key under PFS) and salt announced by one connection to that DC, the key id must be the SHA-1 id of the key, a save must concern the primary DC, and a "+
			"session saved by the client must load again. load: a stored session with every single-bit flip of the 256-byte key and of the 8-byte key id, key lengths {0,1,16,128,255,257,300}, id lengths 0..7 and 9, "+
			"all-zero key / id, id of another key, x PFS on/off through the client's restoreConnection: refused (error, in-memory session untouched) iff the id does not match. distinct = BFS states / witnesses.", depth)
		c.Assume("the MTProto layer is a stand-in: it confirms the key the client handed down (a fresh one if none; always a fresh temporary key under PFS) and reports this_dc = the DC the connection was created for")
		c.Assume("the creator closure of Client.dc (handler and session map by mode) is mirrored in the in-package accessor, not executed (it needs a running pool)")
		c.Assume("the title's 'primary DC' is enforced as: a save must not store a DC other than the client's current primary DC")
		c.Assume("reference key id = last 8 bytes of SHA-1(key) (lib/refcrypto); stored-session format read with encoding/json from the field names of session.Data")

		for _, pfs := range []bool{false, true} {
			load.Eval(wLoad{pfs, "none", 0})
			for b := 0; b < 2048; b++ {
				load.Eval(wLoad{pfs, "key-bit", b})
			}
			for b := 0; b < 64; b++ {
				load.Eval(wLoad{pfs, "id-bit", b})
			}
			for _, n := range []int{0, 1, 16, 128, 255, 257, 300} {
				load.Eval(wLoad{pfs, "key-len", n})
			}
			for _, n := range []int{0, 1, 2, 3, 4, 5, 6, 7, 9} {
				load.Eval(wLoad{pfs, "id-len", n})
			}
			for _, m := range []string{"key-zero", "id-zero", "swap-id"} {
				load.Eval(wLoad{pfs, m, 0})
			}
		}
		// E-SCHED companion: session notification racing with a migration (4 scenarios x 4 subtree shards)
		c.ForkSched(16, 16)
	})
}
