//go:build verif

package manager

import (
	"context"

	"github.com/gotd/td/bin"
	"github.com/gotd/td/tg"
)

// VerifC30Proto stands in for the mtproto.Conn below a manager.Conn: Run just runs the callback,
// Invoke answers every request (the init request is the only one sent) with Cfg.
type VerifC30Proto struct {
	Cfg     tg.Config
	Invokes int
}

// Invoke implements protoConn.
func (p *VerifC30Proto) Invoke(_ context.Context, _ bin.Encoder, output bin.Decoder) error {
	p.Invokes++
	var b bin.Buffer
	if err := p.Cfg.Encode(&b); err != nil {
		return err
	}
	return output.Decode(&b)
}

// Run implements protoConn.
func (p *VerifC30Proto) Run(ctx context.Context, f func(ctx context.Context) error) error {
	return f(ctx)
}

// Ping implements protoConn.
func (p *VerifC30Proto) Ping(context.Context) error { return nil }

// VerifC30SetProto replaces the MTProto layer of an unstarted connection.
func (c *Conn) VerifC30SetProto(p *VerifC30Proto) { c.proto = p }

// VerifC30Init runs the real init (initConnection + help.getConfig, or the CDN shortcut).
func (c *Conn) VerifC30Init(ctx context.Context) error { return c.init(ctx) }
