//go:build verif

package telegram

import (
	"context"

	"github.com/gotd/td/crypto"
	"github.com/gotd/td/mtproto"
	"github.com/gotd/td/pool"
	"github.com/gotd/td/telegram/internal/manager"
	"github.com/gotd/td/tg"
)

// VerifC30Conn is a real manager.Conn created by the client, with the MTProto layer replaced by a
// stand-in, plus what the client handed down to that layer.
type VerifC30Conn struct {
	conn  *manager.Conn
	proto *manager.VerifC30Proto

	DC           int
	CDN          bool
	PFS          bool           // Options.EnablePFS handed to mtproto
	GivenKey     crypto.AuthKey // Options.Key handed to mtproto
	GivenPermKey crypto.AuthKey // Options.PermKey handed to mtproto
	GivenSalt    int64
}

func verifC30Wrap(pc pool.Conn, dc int, cdn bool, opts mtproto.Options) *VerifC30Conn {
	mc := pc.(*manager.Conn)
	p := &manager.VerifC30Proto{}
	mc.VerifC30SetProto(p)
	return &VerifC30Conn{conn: mc, proto: p, DC: dc, CDN: cdn, PFS: opts.EnablePFS,
		GivenKey: opts.Key, GivenPermKey: opts.PermKey, GivenSalt: opts.Salt}
}

// OnSession is what the MTProto layer calls when the server created the session.
func (v *VerifC30Conn) OnSession(s mtproto.Session) error { return v.conn.OnSession(s) }

// Init runs the connection's init; the server's help.getConfig answer says this_dc = thisDC.
func (v *VerifC30Conn) Init(ctx context.Context, thisDC int) error {
	v.proto.Cfg = tg.Config{ThisDC: thisDC}
	return v.conn.VerifC30Init(ctx)
}

// VerifC30Prepare does what Run does before anything else: sets the client context.
func (c *Client) VerifC30Prepare(ctx context.Context) {
	c.ctx, c.cancel = context.WithCancel(ctx)
}

// VerifC30Restore is the first step of Run.
func (c *Client) VerifC30Restore(ctx context.Context) error { return c.restoreConnection(ctx) }

// VerifC30Primary wraps the current primary connection (created by NewClient, restoreConnection or
// the reconnect loop through createPrimaryConn). Must be called before the session changes again.
func (c *Client) VerifC30Primary() *VerifC30Conn {
	c.connMux.Lock()
	conn := c.conn
	c.connMux.Unlock()
	opts, s := c.session.Options(c.opts) // what createConn handed down
	return verifC30Wrap(conn.(pool.Conn), s.DC, false, opts)
}

// VerifC30OpenSameDC creates a connection the way Client.Pool's creator does.
func (c *Client) VerifC30OpenSameDC() *VerifC30Conn {
	id := c.connsCounter.Inc()
	opts, s := c.session.Options(c.opts)
	return verifC30Wrap(c.createConn(id, manager.ConnModeData, nil, nil), s.DC, false, opts)
}

// VerifC30OpenDC creates a connection the way the creator closure inside Client.dc does
// (regular data connection to another DC, or a CDN connection).
func (c *Client) VerifC30OpenDC(dcID int, cdn bool) *VerifC30Conn {
	mode := manager.ConnModeData
	opts := c.opts
	if cdn {
		mode = manager.ConnModeCDN
		opts.EnablePFS = false
	}
	id := c.connsCounter.Inc()
	c.sessionsMux.Lock()
	sessions := c.sessions
	if mode == manager.ConnModeCDN {
		sessions = c.cdnSessions
	}
	session, ok := sessions[dcID]
	if !ok {
		session = pool.NewSyncSession(pool.Session{DC: dcID})
		sessions[dcID] = session
	}
	c.sessionsMux.Unlock()
	options, _ := session.Options(opts)
	handler := c.asHandler()
	if mode == manager.ConnModeCDN {
		handler = c.asCDNHandler()
	}
	_ = id
	conn := c.create(nil, mode, c.appID, options, manager.ConnOptions{
		DC: dcID, Layer: c.layer, Device: c.device, Handler: handler,
	})
	return verifC30Wrap(conn, dcID, cdn, options)
}

// VerifC30Migrate is migrateToDc's state change followed by what the reconnect loop does on
// restart: a new primary connection built from the migrated session.
func (c *Client) VerifC30Migrate(dcID int) *VerifC30Conn {
	c.session.Migrate(dcID)
	c.connMux.Lock()
	c.replaceConn(c.createPrimaryConn(nil))
	c.connMux.Unlock()
	return c.VerifC30Primary()
}

// VerifC30Session returns the primary session held in memory.
func (c *Client) VerifC30Session() pool.Session { return c.session.Load() }

// VerifC30DCSessions returns the per-DC (cdn=false) or CDN session map.
func (c *Client) VerifC30DCSessions(cdn bool) map[int]pool.Session {
	c.sessionsMux.Lock()
	defer c.sessionsMux.Unlock()
	src := c.sessions
	if cdn {
		src = c.cdnSessions
	}
	out := map[int]pool.Session{}
	for k, v := range src {
		out[k] = v.Load()
	}
	return out
}
