// C03: the persisted update state never runs ahead of what was handed to the handler, and a
// crash at any call boundary followed by a restart from the persisted state loses nothing.
//
// Same harness as C02 (real engine on one thread, reference-log fake server). The storage and
// the handler record one merged trace. (a) every prefix of every trace is checked; (b) for every
// scenario that ends with a recovery, a crash is injected at every boundary of its trace: a new
// engine is built from the storage content at that point with the real Manager.loadState /
// loadChannels, runs its start-up differences against the same server and all timers to a
// fixpoint; the union of both runs' deliveries must contain the log.
package main

import (
	"fmt"
	"os"
	"runtime"
	"strings"
	"sync"

	"github.com/gotd/td/internal/verif/kit"
	"github.com/gotd/td/internal/verif/lib/updsim"
)

type witness struct {
	updsim.Scenario
	out *playOut
}

type playOut struct {
	updsim.Out
	trace []updsim.Call
}

type crashW struct {
	updsim.Scenario
	// CrashAfter: the process dies after the first CrashAfter elements of the trace.
	CrashAfter int `json:"crash_after"`
	trace      []updsim.Call
}

func seqKind(e updsim.Entry) string {
	switch {
	case e.Seq == updsim.SeqPts:
		return "pts"
	case e.Seq == updsim.SeqQts:
		return "qts"
	}
	return "channel-pts"
}

func judgePersisted(sc updsim.Scenario, out *playOut) kit.Result {
	w, _, err := updsim.Play(sc)
	if w != nil {
		defer w.Close()
	}
	if err != nil {
		return kit.Bad("harness", "%v", err)
	}
	log := w.Srv.Log
	if out != nil {
		out.Key = w.Key()
		out.Enabled = updsim.EnabledMask(w, updsim.Alphabet(sc.World, log, false), true)
		out.trace = w.Trace
	}
	res := kit.Result{Key: sc.String(), Trivial: len(sc.Hist) == 0 && sc.Final == nil}
	if len(w.Errs) > 0 {
		r := kit.Bad("engine-error", "%v\nscenario: %v\n%s", w.Errs, sc, w.Describe())
		r.Key = res.Key
		return r
	}
	if a := updsim.CheckPersisted(log, w.All, updsim.InitialStore(sc.World, log), w.Trace, func(e updsim.Entry) bool { return e.Count > 0 && w.Owed(e) }); a != nil {
		class := "persisted-ahead:" + a.Entry.Class() + "-" + servedBefore(w, a)
		if sc.World.IsUntracked(a.Entry.Chan) {
			class = "persisted-ahead:update-of-newly-seen-channel"
		}
		if a.TooLong {
			class = "persisted-ahead:too-long-" + seqKind(a.Entry) + "-saved-before-callback"
		}
		r := kit.Bad(class, "after %d trace elements (last: %v) the saved %s is %d, which covers entry #%d %s (%s %d) that has not been handed to the handler, and no too-long callback was called\nscenario: %v\n%s",
			a.Prefix, w.Trace[a.Prefix-1], a.Entry.Seq, a.Saved, a.Entry.Idx, a.Entry.Kind, a.Entry.Seq, a.Entry.End, sc, w.Describe())
		r.Key = res.Key
		return r
	}
	writes, handles := 0, 0
	for _, c := range w.Trace {
		switch {
		case c.Op == "Handle":
			handles++
		case c.IsBoundary():
			writes++
		}
	}
	res.Outcome = fmt.Sprintf("ok:%s", bucket(writes, handles))
	return res
}

func bucket(writes, handles int) string {
	b := func(n int) string {
		switch {
		case n == 0:
			return "0"
		case n <= 2:
			return "1-2"
		case n <= 5:
			return "3-5"
		}
		return "6+"
	}
	return "writes=" + b(writes) + ",handles=" + b(handles)
}

// servedBefore: how the entry had been made available by the time of the violation.
func servedBefore(w *updsim.World, a *updsim.Ahead) string {
	return w.ServedClass(a.Entry)
}

type restartResult struct {
	count     []int
	tooLong   map[string]bool
	quiescent bool
	errs      []string
	describe  string
}

var restartMemo sync.Map // world cfg + store -> *restartResult

func restart(cfg updsim.WorldCfg, store updsim.Store, chans []int64) (*restartResult, error) {
	key := fmt.Sprintf("%+v|%s", cfg, updsim.StoreKey(store, chans))
	if r, ok := restartMemo.Load(key); ok {
		return r.(*restartResult), nil
	}
	w, q, err := updsim.Restart(cfg, store)
	if err != nil {
		return nil, err
	}
	r := &restartResult{count: w.Count, tooLong: w.TooLong, quiescent: q, errs: w.Errs, describe: w.Describe()}
	restartMemo.Store(key, r)
	return r, nil
}

func judgeCrash(cw crashW) kit.Result {
	sc := cw.Scenario
	trace := cw.trace
	log, err := updsim.ParseLog(sc.World.Log)
	if err != nil {
		return kit.Bad("harness", "%v", err)
	}
	chans := updsim.LogChannels(log)
	if trace == nil {
		w, _, err := updsim.Play(sc)
		if w != nil {
			defer w.Close()
		}
		if err != nil {
			return kit.Bad("harness", "%v", err)
		}
		trace = w.Trace
	}
	if cw.CrashAfter > len(trace) {
		return kit.Bad("harness", "crash point %d beyond the trace (%d)", cw.CrashAfter, len(trace))
	}
	store, before, reported := updsim.Snapshot(log, updsim.InitialStore(sc.World, log), trace, cw.CrashAfter)
	// entries of a channel the client did not know at the start are owed only if the crashed run
	// had already persisted a position for it, and only after the first contact
	contact := updsim.FirstContact(sc.World, log, sc.Hist)
	owed := func(e updsim.Entry) bool {
		if e.Count == 0 || e.Affected() {
			// zero-count updates occupy no position: a saved pts neither covers nor exposes them;
			// an own operation (affected-pts result) has nothing that must reach the handler
			return false
		}
		if e.Chan == 0 || !sc.World.IsUntracked(e.Chan) {
			return true
		}
		fc, seen := contact[e.Seq]
		_, saved := store.Chans[e.Chan]
		return seen && saved && e.End > fc
	}
	r, err := restart(sc.World, store, chans)
	if err != nil {
		return kit.Bad("harness", "restart: %v", err)
	}
	res := kit.Result{Key: fmt.Sprintf("%v crash@%d", sc, cw.CrashAfter)}
	bad := func(class, f string, a ...any) kit.Result {
		x := kit.Bad(class, f, a...)
		x.Key = res.Key
		x.Msg += fmt.Sprintf("\nscenario: %v\nfirst run, trace up to the crash: %v\npersisted at the crash: %s\nsecond run:\n%s", sc, trace[:cw.CrashAfter], updsim.StoreKey(store, chans), r.describe)
		return x
	}
	if len(r.errs) > 0 {
		return bad("engine-error-after-restart", "%v", r.errs)
	}
	if !r.quiescent {
		return bad("no-quiescence-after-restart", "timers keep changing the state")
	}
	// had the server told the client "too long" before the crash without the callback being called?
	answered := map[string]bool{}
	for _, c := range trace[:cw.CrashAfter] {
		switch c.Op {
		case "api:differenceTooLong":
			answered[updsim.SeqPts] = true
		case "api:channelDifferenceTooLong":
			answered[updsim.ChanSeq(int64(c.Args[1]))] = true
		}
	}
	var lost []string
	class := ""
	for i, e := range log {
		if before[i]+r.count[i] > 0 || reported[e.Seq] || r.tooLong[e.Seq] || !owed(e) {
			continue
		}
		lost = append(lost, fmt.Sprintf("#%d %s (%s %d)", i, e.Kind, e.Seq, e.End))
		if class == "" {
			class = "lost-after-crash:" + e.Class()
			if sc.World.IsUntracked(e.Chan) {
				class = "lost-after-crash:update-of-newly-seen-channel"
			}
			if answered[e.Seq] {
				class = "lost-after-crash:too-long-" + seqKind(e) + "-saved-before-callback"
			}
		}
	}
	if len(lost) > 0 {
		return bad(class, "crash after %d trace elements, restart from the persisted state, start-up differences and all timers to a fixpoint: neither run handed %s to the handler and no too-long callback reported it",
			cw.CrashAfter, strings.Join(lost, ", "))
	}
	redelivered := false
	for i := range log {
		if before[i] > 0 && r.count[i] > 0 {
			redelivered = true
		}
	}
	switch {
	case cw.CrashAfter == len(trace):
		res.Outcome = "restart-after-complete-run"
	case redelivered:
		res.Outcome = "crash:some-entries-delivered-in-both-runs"
	default:
		res.Outcome = "crash:no-entry-delivered-twice"
	}
	return res
}

type worldPlan struct {
	cfg   updsim.WorldCfg
	depth int
}

func seqs(alpha []string, minLen, maxLen int) [][]string {
	var out [][]string
	var rec func(cur []string)
	rec = func(cur []string) {
		if len(cur) >= minLen {
			out = append(out, append([]string(nil), cur...))
		}
		if len(cur) == maxLen {
			return
		}
		for _, a := range alpha {
			rec(append(cur, a))
		}
	}
	rec(nil)
	return out
}

func cat(a, b []string) []string { return append(append([]string(nil), a...), b...) }

func plans(thorough bool) []worldPlan {
	var ps []worldPlan
	add := func(log []string, d int, mod func(*updsim.WorldCfg)) {
		cfg := updsim.WorldCfg{Log: log}
		if mod != nil {
			mod(&cfg)
		}
		ps = append(ps, worldPlan{cfg, d})
	}
	commonLen, chanLen, depth := 3, 3, 6
	if thorough {
		commonLen, chanLen, depth = 5, 3, 9
	}
	if v := os.Getenv("VERIF_C03_BOUNDS"); v != "" { // experiments: "common,chan,depth"
		fmt.Sscanf(v, "%d,%d,%d", &commonLen, &chanLen, &depth)
	}
	for _, log := range seqs([]string{"msg", "del", "enc"}, 1, commonLen) {
		for _, sl := range []int{0, 1, 2} {
			if sl >= len(log) && sl > 0 {
				continue
			}
			sl := sl
			add(log, depth, func(c *updsim.WorldCfg) { c.Server.Slice = sl })
		}
	}
	for _, log := range [][]string{{"msg", "edit"}, {"msg", "read"}, {"msg", "del2"}, {"del2", "msg"}, {"del2", "del"}, {"msg", "del2", "msg"}} {
		add(log, depth, nil)
		add(log, depth, func(c *updsim.WorldCfg) { c.Envelope = "short" })
	}
	for _, log := range seqs([]string{"msg", "del", "enc"}, 1, commonLen-1) {
		add(log, depth, func(c *updsim.WorldCfg) { c.Server.Seq = true })
	}
	for _, log := range seqs([]string{"msg", "qbot"}, 1, commonLen-1) {
		add(log, depth, func(c *updsim.WorldCfg) { c.Bot = true })
	}
	// qts-bearing other_updates next to new_encrypted_messages in one difference: the other update does not directly
	// follow the local qts (the encrypted message before it is served in another vector of the same answer)
	for _, log := range seqs([]string{"enc", "qbot"}, 2, commonLen) {
		add(log, depth, func(c *updsim.WorldCfg) { c.Bot = true })
	}
	for _, ch := range seqs([]string{"cmsg", "cdel"}, 1, chanLen) {
		for _, common := range [][]string{nil, {"msg"}} {
			for _, sl := range []int{0, 1} {
				if sl >= len(ch) && sl > 0 {
					continue
				}
				sl := sl
				add(cat(common, ch), depth, func(c *updsim.WorldCfg) { c.Server.ChanSlice = sl })
			}
		}
	}
	// channels the client neither tracks nor has in its storage (access hash known): the first
	// pushed update makes the main loop persist a start position and create the worker; crash
	// points lie between that write and the worker's first delivery
	for _, ch := range seqs([]string{"cmsg@2", "cdel@2"}, 1, chanLen) {
		add(ch, depth, func(c *updsim.WorldCfg) { c.Untracked = []int{2} })
		add(cat([]string{"msg", "cmsg"}, ch), depth, func(c *updsim.WorldCfg) { c.Untracked = []int{2}; c.Server.ChanSlice = 1 })
	}
	add([]string{"cmsg@2", "cmsg@3", "cdel@3"}, depth, func(c *updsim.WorldCfg) { c.Untracked = []int{2, 3} })
	// envelopes carrying several entries (also zero-count ones) in any order, for tracked and
	// newly seen channels and for the common sequences
	conts := [][]string{{"cmsg@2", "cread@2"}, {"cmsg@2", "cread@2", "cmsg@2"}, {"cmsg@2", "cdel@2"}, {"cmsg", "cread"}, {"cmsg", "cread", "cmsg"}, {"msg", "web"}, {"msg", "web", "msg"}, {"msg", "del", "enc"}, {"msg", "cmsg@2", "cread@2"}}
	if thorough {
		conts = append(conts, []string{"cmsg@2", "cread@2", "cmsg@2", "cweb@2"}, []string{"cmsg", "cmsg@2", "cread@2", "cdel@2"}, []string{"msg", "web", "del", "enc"})
	}
	for _, log := range conts {
		k := 3
		if len(log) > 3 {
			k = 2
		}
		add(log, depth-1, func(c *updsim.WorldCfg) { c.Containers = k; c.Untracked = []int{2} })
	}
	// zero-count updates pushed one by one / carried in differences
	for _, log := range [][]string{{"cmsg", "cread", "cmsg"}, {"msg", "web", "msg"}, {"cmsg@2", "cread@2", "cmsg@2"}} {
		add(log, depth, func(c *updsim.WorldCfg) { c.Untracked = []int{2} })
		add(log, depth, func(c *updsim.WorldCfg) { c.Untracked = []int{2}; c.Server.Slice, c.Server.ChanSlice = 2, 2 })
	}
	add([]string{"cmsg", "cedit"}, depth, nil)
	add([]string{"msg", "del", "enc", "cmsg", "cdel"}, depth, nil)
	add([]string{"cmsg", "cmsg@2", "cdel@2"}, depth, nil)
	// own operations learned from messages.affected* results (Manager.HandleAffected)
	for _, log := range [][]string{{"aff", "msg"}, {"msg", "aff"}, {"msg", "aff", "msg"}, {"del", "aff", "aff"}, {"cmsg", "caff"}, {"caff", "cmsg"}, {"cmsg", "caff", "cmsg"}} {
		for _, sl := range []int{0, 1} {
			sl := sl
			add(log, depth, func(c *updsim.WorldCfg) { c.Server.Slice, c.Server.ChanSlice = sl, sl })
		}
	}
	// short forms of new messages; messages from a sender whose access hash is unknown / learned
	for _, log := range [][]string{{"msg"}, {"msg", "msg"}, {"msg", "del", "msg"}} {
		for _, env := range []string{"shortchat", "shortuser", "shortsent"} {
			env := env
			add(log, depth, func(c *updsim.WorldCfg) { c.Envelope = env })
		}
		for _, snd := range []string{"unknown", "learned"} {
			snd := snd
			add(log, depth, func(c *updsim.WorldCfg) { c.Server.Sender = snd })
		}
	}
	// channels stored at the start whose access hash arrives with their first pushed envelope
	for _, ch := range seqs([]string{"cmsg@2", "cdel@2"}, 1, chanLen) {
		add(ch, depth, func(c *updsim.WorldCfg) { c.LateHash = []int{2} })
	}
	add([]string{"cmsg", "cmsg@2", "cdel@2"}, depth, func(c *updsim.WorldCfg) { c.LateHash = []int{2}; c.Server.ChanSlice = 1 })
	add([]string{"cmsg@2", "cdel@2", "cmsg@2"}, depth-1, func(c *updsim.WorldCfg) { c.LateHash = []int{2}; c.Containers = 2 })
	// the server answers "too long"
	for _, log := range seqs([]string{"msg", "del"}, 2, commonLen) {
		add(log, depth, func(c *updsim.WorldCfg) { c.Server.TooLong = 2 })
	}
	add([]string{"msg", "enc", "msg", "enc"}, depth, func(c *updsim.WorldCfg) { c.Server.TooLong = 2 })
	for _, ch := range seqs([]string{"cmsg", "cdel"}, 2, chanLen) {
		add(ch, depth, func(c *updsim.WorldCfg) { c.Server.ChanTooLong = 2 })
	}
	return ps
}

func main() {
	kit.Main("C03", "fault_enumeration", func(c *kit.Ctx) {
		persisted := kit.NewFamily(c, "persisted", func(w witness) kit.Result { return judgePersisted(w.Scenario, w.out) })
		crash := kit.NewFamily(c, "crash-restart", judgeCrash)
		if c.Replaying() {
			return
		}
		c.Rule("Worlds and histories as in C02 (reference server log, BFS over pushes in any order/repetition/omission + timers, each of 3 recoveries from every reachable state), plus worlds whose server answers differenceTooLong / channelDifferenceTooLong, plus worlds with channels that are neither tracked nor in the storage when the client starts (access hash known): their first pushed update takes internalState.handleChannel's create path (main loop persists the start position, creates the channelState and starts its worker; the worker's real goroutine is parked in its subscribe call by the fake server and the harness performs the subscribe difference and the queue steps itself), so crash points lie between the main loop's write and the worker's first delivery. Entries of such a channel are owed to the handler from the position before its first pushed entry on (and, after a crash, only if a position for it had been persisted). " +
			"Family persisted (a): every scenario's merged trace of StateStorage writes, Handler.Handle calls and too-long callbacks; oracle on EVERY prefix: no log entry whose end position is <= the saved pts/qts/channel pts of its sequence is still undelivered unless the too-long callback of that sequence was called earlier. " +
			"Family crash-restart (b): for every scenario that ends with a recovery, a crash after each k = 0..len(trace) trace elements (every call boundary of the two interfaces): storage snapshot at k -> new engine through the real loadState/loadChannels -> start-up difference + channel subscriptions + all timers to a fixpoint against the complete log; oracle: every log entry was handed to the handler before the crash or in the second run, or its sequence was reported too long. " +
			"Further worlds push envelopes that carry 2-3 log entries in every order (tracked channels, newly seen channels, common sequences) and contain zero-count updates (cread/cweb/web); the first contact of a newly seen channel is the earliest range start in the first envelope that carries it. Zero-count entries occupy no position, so a saved pts neither covers nor exposes them: they take part in the histories but are not themselves demanded by (a)/(b). " +
			"A case = scenario (+ crash point); distinct = distinct cases; the root scenario of a world is trivial. Audit additions: (a) log kinds aff / caff = own operations whose position the client learns from a messages.affected* result: pushing such an entry calls the affectedQueue arm (Manager.HandleAffected -> internalState.handleAffected / channelState.handleAffected) in any order with the pushes around it; nothing of it is owed to the handler, a position it covers counts as settled once the result was handed over, and a tracked position may move to its end; a difference from an earlier position returns it as updateReadHistoryOutbox / updateDeleteChannelMessages in other_updates. (b) envelope forms shortchat / shortuser / shortsent: a new message pushed as updateShortChatMessage (own message, peers known: conversion path), updateShortMessage (sender access hash unknown: envelope dropped, immediate getDifference) or updateShortSentMessage (delivered as updateNewMessage with messageEmpty). (c) Server.Sender unknown / learned: msg and edit carry from_id of a user whose access hash is unknown (every pushed envelope with such a message is dropped and answered by getDifference) or is learned from the users vector of the first difference. (d) LateHash worlds: a channel that is in the storage at position 0 but whose access hash is unknown at start-up (Manager.loadChannels skips it); its envelopes carry the full channel in chats, so the first push makes handleChannel create the worker from the STORED position (GetChannelPts found branch); every entry after the stored position is owed once a push was seen. (e) \"covered by a fetched difference\" is kept as position ranges: an answer to a request from a that sets state b covers (a, b], not the positions up to a. After a restart the access hash of a LateHash channel is known, so it is tracked from its saved position.")
		c.Assume("the StateStorage used is a plain map implementation of the interface contract (SetState does not touch channel pts); crash = the process stops between two calls, the storage keeps exactly the completed writes")
		c.Assume("engine driven on one thread through in-package step functions (see C02); restart results are memoised per (world, storage snapshot), which is sound because the second run is a deterministic function of those")
		ps := plans(c.Thorough())
		var mu sync.Mutex
		worlds, crashPoints, maxTrace := 0, int64(0), 0
		kit.Parallel(len(ps), runtime.GOMAXPROCS(0), func(i int) {
			if c.Expired() {
				c.NotExhaustive("time budget: world %d of %d not explored", i, len(ps))
				return
			}
			p := ps[i]
			var cp int64
			mt := 0
			_, err := updsim.Explore(c, p.cfg, p.depth, true, false, 1, func(sc updsim.Scenario, out *updsim.Out) {
				var po playOut
				ok := persisted.Eval(witness{sc, &po})
				*out = po.Out
				if sc.Final == nil || !ok && po.trace == nil {
					return
				}
				if len(po.trace) > mt {
					mt = len(po.trace)
				}
				for k := 0; k <= len(po.trace); k++ {
					if k > 0 && !po.trace[k-1].IsBoundary() {
						continue
					}
					cp++
					crash.Eval(crashW{Scenario: sc, CrashAfter: k, trace: po.trace})
				}
			})
			if err != nil {
				panic(err)
			}
			mu.Lock()
			worlds++
			crashPoints += cp
			if mt > maxTrace {
				maxTrace = mt
			}
			mu.Unlock()
		})
		c.Set("worlds", worlds)
		c.Set("crash_points", crashPoints)
		c.Set("longest_trace", maxTrace)
	})
}
