//go:build verif

// In-package accessors for the verification checks C01/C02/C03 (identical copies live in
// checks/c01, c02 and c03). They only add exported wrappers; no behaviour is changed.
//
// The wrappers expose (1) the unexported sequenceBox and (2) the bodies of the select arms of
// internalState.Run / channelState.Run as individually callable steps, so that a harness can run
// the real handlers on one thread in an order it chooses (no goroutines, no wall-clock waits).
package updates

import (
	"context"
	"sort"

	"github.com/gotd/log"
	"go.opentelemetry.io/otel/trace"
	"go.opentelemetry.io/otel/trace/noop"
	"golang.org/x/sync/errgroup"

	"github.com/gotd/td/telegram"
	"github.com/gotd/td/tg"
)

// ---------------------------------------------------------------------------------------------
// sequenceBox

// VerifUpdate is an update as seen by a sequence box: it covers positions (State-Count, State].
type VerifUpdate struct {
	ID    int // harness-chosen identity, carried in update.Value
	State int
	Count int
}

// VerifBox wraps a real sequenceBox.
type VerifBox struct{ b *sequenceBox }

// VerifNewBox builds a real sequenceBox whose apply callback is reported to the harness.
func VerifNewBox(initial int, apply func(state int, batch []VerifUpdate) error) *VerifBox {
	return &VerifBox{b: newSequenceBox(sequenceConfig{
		InitialState: initial,
		Apply: func(ctx context.Context, state int, updates []update) error {
			batch := make([]VerifUpdate, len(updates))
			for i, u := range updates {
				id, _ := u.Value.(int)
				batch[i] = VerifUpdate{ID: id, State: u.State, Count: u.Count}
			}
			return apply(state, batch)
		},
	})}
}

// Handle is sequenceBox.Handle.
func (v *VerifBox) Handle(u VerifUpdate) error {
	return v.b.Handle(context.Background(), update{Value: u.ID, State: u.State, Count: u.Count})
}

// GapsClear is the first thing getDifference does to a box.
func (v *VerifBox) GapsClear() { v.b.gaps.Clear() }

// SetState is what getDifference does to a box once the difference was processed.
func (v *VerifBox) SetState(p int) { v.b.SetState(p, "verif difference") }

// VerifBoxDump is the property-relevant content of a box.
type VerifBoxDump struct {
	State   int
	Pending []VerifUpdate // in slice order
	Gaps    [][2]int      // in slice order
	Armed   bool          // gap timer armed
}

func timerArmed(b *sequenceBox) bool {
	// Stop reports whether the timer was armed (Reset and neither stopped nor received from);
	// with go >= 1.23 timer channels this does not depend on how much wall-clock time passed.
	// Re-arm it so that the probe does not change anything the box can observe.
	if b.gapTimeout.Stop() {
		b.gapTimeout.Reset(fastgapTimeout)
		return true
	}
	return false
}

func dumpBox(b *sequenceBox, id func(any) int) VerifBoxDump {
	d := VerifBoxDump{State: b.state, Armed: timerArmed(b)}
	for _, u := range b.pending {
		d.Pending = append(d.Pending, VerifUpdate{ID: id(u.Value), State: u.State, Count: u.Count})
	}
	for _, g := range b.gaps.gaps {
		d.Gaps = append(d.Gaps, [2]int{g.from, g.to})
	}
	return d
}

// Dump returns the state of the box.
func (v *VerifBox) Dump() VerifBoxDump {
	return dumpBox(v.b, func(x any) int { i, _ := x.(int); return i })
}

// ---------------------------------------------------------------------------------------------
// internalState / channelState driven step by step

// VerifChannel is a tracked channel.
type VerifChannel struct {
	ID         int64
	AccessHash int64
	Pts        int
}

// VerifConfig configures VerifNewState.
type VerifConfig struct {
	SelfID           int64
	API              API
	Handler          telegram.UpdateHandler
	Storage          StateStorage
	Hasher           ChannelAccessHasher
	UserHasher       UserAccessHasher // nil: in-memory default
	OnTooLong        func()
	OnChannelTooLong func(channelID int64)
	IsBot            bool
}

// VerifState is an internalState plus its channel states, none of whose Run loops is started.
type VerifState struct {
	s      *internalState
	ctx    context.Context // cancelled by Close
	cancel context.CancelFunc
	chans  []int64
	wg     *errgroup.Group
}

type verifOriginKey struct{}

// VerifOrigin tells an API/handler/storage fake which loop the call comes from: "main" for
// calls made (transitively) by a main-loop step, "chan" for calls made by a channel-worker step
// of the harness, "" otherwise. A channel worker that internalState.handleChannel starts on its
// own for a newly seen channel (s.wg.Go(state.Run)) inherits the context of the main-loop step,
// so its channel-subscribe getChannelDifference arrives with origin "main": the fake server
// parks that call until Close, and the harness drives the new channelState through the same
// step functions as the tracked ones (after Adopt).
func VerifOrigin(ctx context.Context) string {
	o, _ := ctx.Value(verifOriginKey{}).(string)
	return o
}

func (v *VerifState) mainCtx() context.Context {
	return context.WithValue(v.ctx, verifOriginKey{}, "main")
}

func (v *VerifState) chanCtx() context.Context {
	return context.WithValue(v.ctx, verifOriginKey{}, "chan")
}

// Close cancels the engine's context and waits for the channel workers the engine started on its
// own (they are parked in their first API call by the fake server) to return.
func (v *VerifState) Close() {
	v.cancel()
	_ = v.wg.Wait()
}

// Adopt registers the channel states the engine created on its own since the last call and
// returns their ids (sorted). Must only be called once their workers are parked.
func (v *VerifState) Adopt() []int64 {
	known := map[int64]bool{}
	for _, c := range v.chans {
		known[c] = true
	}
	var fresh []int64
	for id := range v.s.channels {
		if !known[id] {
			fresh = append(fresh, id)
		}
	}
	sort.Slice(fresh, func(i, j int) bool { return fresh[i] < fresh[j] })
	v.chans = append(v.chans, fresh...)
	sort.Slice(v.chans, func(i, j int) bool { return v.chans[i] < v.chans[j] })
	return fresh
}

// VerifNewState performs the set-up part of Manager.Run with the real Manager.loadState /
// Manager.loadChannels (forget=false) and the real newState, except that the channel states are
// created with internalState.newChannelState directly instead of through stateConfig.Channels,
// because the latter also starts their Run goroutines. The start-up differences that
// internalState.Run and channelState.Run perform first are separate steps (MainDiff,
// ChanSubscribe).
func VerifNewState(cfg VerifConfig) (*VerifState, error) {
	ctx, cancel := context.WithCancel(context.Background())
	m := New(Config{
		Handler:          cfg.Handler,
		Storage:          cfg.Storage,
		AccessHasher:     cfg.Hasher,
		UserAccessHasher: cfg.UserHasher,
		OnTooLong:        cfg.OnTooLong,
		OnChannelTooLong: cfg.OnChannelTooLong,
		Logger:           log.Nop,
		TracerProvider:   noop.NewTracerProvider(),
	})
	state, err := m.loadState(ctx, cfg.API, cfg.SelfID, false)
	if err != nil {
		cancel()
		return nil, err
	}
	channels, err := m.loadChannels(ctx, cfg.SelfID)
	if err != nil {
		cancel()
		return nil, err
	}
	diffLim := diffLimitUser
	if cfg.IsBot {
		diffLim = diffLimitBot
	}
	wg := &errgroup.Group{}
	s := newState(ctx, stateConfig{
		State:                 state,
		RawClient:             cfg.API,
		Tracer:                m.tracer,
		Logger:                m.cfg.Logger,
		Handler:               m.cfg.Handler,
		OnChannelTooLong:      m.cfg.OnChannelTooLong,
		OnChannelInaccessible: m.cfg.OnChannelInaccessible,
		OnTooLong:             m.cfg.OnTooLong,
		Storage:               m.cfg.Storage,
		Hasher:                m.cfg.AccessHasher,
		UserHasher:            m.cfg.UserAccessHasher,
		SelfID:                cfg.SelfID,
		DiffLimit:             diffLim,
		WorkGroup:             wg,
		ChannelDiffSem:        m.chDiffSem,
	})
	v := &VerifState{s: s, ctx: ctx, cancel: cancel, wg: wg}
	for id := range channels {
		v.chans = append(v.chans, id)
	}
	sort.Slice(v.chans, func(i, j int) bool { return v.chans[i] < v.chans[j] })
	for _, id := range v.chans {
		info := channels[id]
		s.channels[id] = s.newChannelState(id, info.AccessHash, info.Pts)
	}
	return v, nil
}

// Channels lists the tracked channels in id order.
func (v *VerifState) Channels() []int64 { return v.chans }

// MainHandle is the body of the externalQueue arm of internalState.Run for one pushed update.
func (v *VerifState) MainHandle(u tg.UpdatesClass) error {
	return v.s.handleUpdates(trace.ContextWithSpanContext(v.mainCtx(), trace.SpanContext{}), u)
}

// MainAffected is the body of the affectedQueue arm of internalState.Run for one
// Manager.HandleAffected call (pts increment of a messages.affected* RPC result).
func (v *VerifState) MainAffected(channelID int64, pts, ptsCount int) error {
	return v.s.handleAffected(trace.ContextWithSpanContext(v.mainCtx(), trace.SpanContext{}), channelID, pts, ptsCount)
}

// VerifAffectedID is the harness identity of a queued affected-pts marker (no update object).
func VerifAffectedID(pts, ptsCount int) int { return -1000 - pts*8 - ptsCount }

// MainInternalLen is the number of updates queued by channel workers for the main loop.
func (v *VerifState) MainInternalLen() int { return len(v.s.internalQueue) }

// MainStepInternal is the internalQueue arm of internalState.Run; false if the queue is empty.
func (v *VerifState) MainStepInternal() (bool, error) {
	select {
	case u := <-v.s.internalQueue:
		return true, v.s.handleUpdates(trace.ContextWithSpanContext(v.mainCtx(), u.span), u.update)
	default:
		return false, nil
	}
}

// MainDiff is what every timer arm (and the start-up) of internalState.Run does.
func (v *VerifState) MainDiff(reason string) { v.s.getDifferenceLogger(v.mainCtx(), reason) }

// ChanLen is the number of updates queued for the channel worker.
func (v *VerifState) ChanLen(id int64) int { return len(v.s.channels[id].updates) }

// ChanStep is the updates arm of channelState.Run for one queued update; false if none.
func (v *VerifState) ChanStep(id int64) (bool, error) {
	s := v.s.channels[id]
	select {
	case u := <-s.updates:
		ctx := trace.ContextWithSpanContext(v.chanCtx(), u.span)
		handle := s.handleUpdate
		if u.affected {
			handle = func(ctx context.Context, _ tg.UpdateClass, _ entities) error {
				return s.handleAffected(ctx, u.pts, u.ptsCount)
			}
		}
		return true, handle(ctx, u.update, u.entities)
	default:
		return false, nil
	}
}

// ChanHeadIsTooLong reports whether the next queued update of the channel worker is an
// updateChannelTooLong (the queue is rotated, so its order is unchanged). Only meaningful while
// no other goroutine touches the queue, which is the case in the single-threaded harness.
func (v *VerifState) ChanHeadIsTooLong(id int64) bool {
	s := v.s.channels[id]
	n := len(s.updates)
	res := false
	for i := 0; i < n; i++ {
		u := <-s.updates
		if i == 0 {
			_, res = u.update.(*tg.UpdateChannelTooLong)
		}
		s.updates <- u
	}
	return res
}

// ChanHold takes the queued updates of a channel worker out of its queue and returns a function
// that puts them back in the same order. Used around the subscribe difference of a channel state
// the engine created itself: the real worker runs that difference while the update that made the
// engine create it is already queued, and channelState.sendOut may either keep or drop queued
// updates (random select); holding them is the schedule in which it keeps them.
func (v *VerifState) ChanHold(id int64) (restore func()) {
	s := v.s.channels[id]
	var held []channelUpdate
	for n := len(s.updates); n > 0; n-- {
		held = append(held, <-s.updates)
	}
	return func() {
		for _, u := range held {
			s.updates <- u
		}
	}
}

// ChanSubscribe is the first statement of channelState.Run.
func (v *VerifState) ChanSubscribe(id int64) error {
	return v.s.channels[id].getDifference(v.chanCtx(), "channel-subscribe")
}

// ChanDiff is the gap-timeout arm of channelState.Run.
func (v *VerifState) ChanDiff(id int64) {
	v.s.channels[id].getDifferenceLogger(v.chanCtx(), "channel-pts-gap-timeout")
}

// ChanIdle is the idle-timeout arm of channelState.Run.
func (v *VerifState) ChanIdle(id int64) {
	s := v.s.channels[id]
	s.resetIdleTimer()
	s.getDifferenceLogger(v.chanCtx(), "channel-idle-timeout")
}

// VerifDump is the state of the whole engine.
type VerifDump struct {
	Pts, Qts, Seq VerifBoxDump
	Date          int
	ChanIDs       []int64        // = Channels()
	Chans         []VerifBoxDump // in Channels() order
	ChanQueue     [][]int        // ids of queued updates per channel worker
	Internal      [][]int        // ids of the updates of each queued internal batch
}

// Dump describes the engine; id maps an update value (tg.UpdateClass, *tg.UpdatesCombined,
// affectedPts) to a harness identity.
func (v *VerifState) Dump(id func(any) int) VerifDump {
	d := VerifDump{
		Pts:  dumpBox(v.s.pts, id),
		Qts:  dumpBox(v.s.qts, id),
		Seq:  dumpBox(v.s.seq, id),
		Date: v.s.date,

		ChanIDs: append([]int64(nil), v.chans...),
	}
	for _, c := range v.chans {
		s := v.s.channels[c]
		d.Chans = append(d.Chans, dumpBox(s.pts, id))
		var q []int
		for i, n := 0, len(s.updates); i < n; i++ {
			u := <-s.updates
			if u.affected {
				q = append(q, VerifAffectedID(u.pts, u.ptsCount))
			} else {
				q = append(q, id(u.update))
			}
			s.updates <- u
		}
		d.ChanQueue = append(d.ChanQueue, q)
	}
	for i, n := 0, len(v.s.internalQueue); i < n; i++ {
		u := <-v.s.internalQueue
		var ids []int
		if us, ok := u.update.(*tg.Updates); ok {
			for _, x := range us.Updates {
				ids = append(ids, id(x))
			}
		}
		d.Internal = append(d.Internal, ids)
		v.s.internalQueue <- u
	}
	return d
}

// TrackedChannels is the number of channel states the engine holds (tracked + created on its own).
func (v *VerifState) TrackedChannels() int { return len(v.s.channels) }
