// C08: outgoing message ids are unique, strictly increasing, divisible by 4 and close to the
// clock; content messages get seqno 2k+1, service messages 2k (k = earlier content messages).
//
// Sequential part only: (a) proto.MessageIDGen under a scripted clock, (b) the seqno rule through a
// real in-package mtproto.Conn driven from one harness thread. The 3-thread interleaving part of the
// property needs the controlled scheduler (E-SCHED) and is not in this check.
package main

import (
	"context"
	"fmt"
	"runtime"
	"time"

	"github.com/gotd/td/bin"
	"github.com/gotd/td/crypto"
	"github.com/gotd/td/internal/verif/kit"
	"github.com/gotd/td/internal/verif/lib/refcrypto"
	"github.com/gotd/td/internal/verif/lib/refsession"
	"github.com/gotd/td/mtproto"
	"github.com/gotd/td/proto"
)

// ---- (a) id generator under a scripted clock ----

type wGen struct {
	Base   string   `json:"base"`   // alignment of the first clock reading
	Deltas []string `json:"deltas"` // clock step before each further call
}

var deltaTable = []struct {
	name string
	d    time.Duration
}{
	{"-1s", -time.Second}, {"-1ns", -1}, {"0", 0}, {"+1ns", 1}, {"+2ns", 2}, {"+3ns", 3}, {"+4ns", 4},
	{"+5ns", 5}, {"+10ns", 10}, {"+1us", time.Microsecond}, {"+1s", time.Second},
}

func deltaOf(name string) (time.Duration, bool) {
	for _, d := range deltaTable {
		if d.name == name {
			return d.d, true
		}
	}
	return 0, false
}

const baseSec = 1_700_000_000

var baseTable = map[string]int64{
	"frac%4=0":    baseSec*1e9 + 500_000_000,
	"frac%4=1":    baseSec*1e9 + 500_000_001,
	"frac%4=2":    baseSec*1e9 + 500_000_002,
	"frac%4=3":    baseSec*1e9 + 500_000_003,
	"second-edge": baseSec*1e9 + 999_999_994,
}
var baseOrder = []string{"frac%4=0", "frac%4=1", "frac%4=2", "frac%4=3", "second-edge"}

// decoded time of an id under td's convention (documented in proto/message_id.go: the low 32 bits
// hold the nanosecond fraction): unix seconds in the high 32 bits.
func idNanos(id int64) int64 { return (id>>32)*1e9 + int64(uint32(id)) }

const closeAbove = 1000 // ns; "close to the clock reading" is not quantified by the statement

func evalGen(w wGen) kit.Result {
	base, ok := baseTable[w.Base]
	if !ok {
		return kit.Bad("bad-witness", "unknown base %q", w.Base)
	}
	readings := []int64{base}
	for _, dn := range w.Deltas {
		d, ok := deltaOf(dn)
		if !ok {
			return kit.Bad("bad-witness", "unknown delta %q", dn)
		}
		readings = append(readings, readings[len(readings)-1]+int64(d))
	}
	call := 0
	gen := proto.NewMessageIDGen(func() time.Time {
		t := time.Unix(0, readings[call])
		call++
		return t
	})
	var prevID, prevT int64
	bumped := false
	for i := range readings {
		id := gen.New(proto.MessageFromClient)
		if call != i+1 {
			return kit.Bad("clock-read-count", "call %d read the clock %d times in total (scripted clock assumes one read per id)", i, call)
		}
		t := idNanos(id)
		if id%4 != 0 {
			return kit.Bad("not-divisible-by-4", "call %d: id %#x %% 4 = %d", i, id, id%4)
		}
		ref := readings[i]
		if i > 0 {
			if id <= prevID {
				cls := "not-increasing:other"
				if d := w.Deltas[i-1]; d == "+1ns" || d == "+2ns" || d == "+3ns" {
					cls = "not-increasing:clock-step-1..3ns"
				}
				return kit.Bad(cls, "call %d (clock %s after previous call, reading %d): id %#x is not greater than previous id %#x", i, w.Deltas[i-1], readings[i], id, prevID)
			}
			if t < prevT {
				return kit.Bad("time-went-back", "call %d: id time %d < previous id time %d", i, t, prevT)
			}
			if prevT > ref {
				ref = prevT
				bumped = true
			}
		}
		if t < ref-3 || t > ref+closeAbove {
			return kit.Bad("time-not-close", "call %d: id encodes %d ns, clock reads %d, previous id time %d (allowed [%d,%d])", i, t, readings[i], prevT, ref-3, ref+closeAbove)
		}
		prevID, prevT = id, t
	}
	if bumped {
		return kit.OKo("held-by-previous-id")
	}
	return kit.OKo("follows-clock")
}

// ---- (b) seqno rule through a real Conn ----

type wSeq struct {
	// Ops: 'C' content message via Conn.Invoke (answered with rpc_result), 's' get_future_salts,
	// 'a' msgs_ack, 'p' ping — the three service writers of mtproto.Conn.
	Ops string `json:"ops"`
}

type rawObj struct{ id uint32 }

func (r rawObj) Encode(b *bin.Buffer) error { b.PutID(r.id); b.PutInt32(0); return nil }

type anyOut struct{ got int }

func (o *anyOut) Decode(b *bin.Buffer) error { o.got++; return nil }

var authKey = kit.Pattern("stream:c08-auth-key", 256)

func newConn(clk *refsession.Clock, pipe *refsession.Pipe) (*mtproto.Conn, error) {
	var k crypto.AuthKey
	copy(k.Value[:], authKey)
	copy(k.ID[:], refcrypto.AuthKeyID(authKey))
	return mtproto.VerifC08NewConn(mtproto.Options{
		Clock:  clk,
		Random: kit.NewStream(808),
		Key:    k,
		Salt:   0x5a17,
	}, pipe)
}

func evalSeq(w wSeq) kit.Result {
	clk := refsession.NewClock(time.Unix(baseSec, 500_000_000))
	pipe := refsession.NewPipe(64)
	conn, err := newConn(clk, pipe)
	if err != nil {
		return kit.Bad("harness", "conn: %v", err)
	}
	ctx := context.Background()
	content := int32(0)
	var prevID int64
	srvID := refsession.MsgID(baseSec, 1)
	for i, op := range w.Ops {
		var frame []byte
		errc := make(chan error, 1)
		out := &anyOut{}
		if op == 'C' {
			go func() { errc <- conn.Invoke(ctx, rawObj{0xc4f9186b}, out) }()
			select {
			case frame = <-pipe.Frames:
			case err := <-errc:
				return kit.Bad("invoke-failed", "op %d: Invoke returned %v before writing a frame", i, err)
			}
		} else {
			kind := map[rune]int{'s': 0, 'a': 1, 'p': 2}[op]
			if err := conn.VerifC08Service(ctx, kind); err != nil {
				return kit.Bad("write-failed", "op %d (%c): %v", i, op, err)
			}
			f, ok := pipe.TryFrame()
			if !ok {
				return kit.Bad("no-frame", "op %d (%c): service write produced no frame", i, op)
			}
			frame = f
		}
		p, err := refsession.Open(authKey, refsession.FromClient, frame)
		if err != nil {
			return kit.Bad("frame-undecryptable", "op %d: %v", i, err)
		}
		if p.SessionID != conn.VerifC08SessionID() {
			return kit.Bad("frame-session", "op %d: frame session %d != conn session", i, p.SessionID)
		}
		if p.MsgID%4 != 0 {
			return kit.Bad("id-not-divisible-by-4", "op %d: msg_id %#x", i, p.MsgID)
		}
		if i > 0 && p.MsgID <= prevID {
			return kit.Bad("id-not-increasing", "op %d: msg_id %#x after %#x", i, p.MsgID, prevID)
		}
		prevID = p.MsgID
		want := 2 * content
		cls := "seqno-service"
		if op == 'C' {
			want++
			cls = "seqno-content"
		}
		if p.SeqNo != want {
			return kit.Bad(cls, "op %d (%c) after %d content messages: seq_no %d, want %d (ops %q)", i, op, content, p.SeqNo, want, w.Ops)
		}
		if op == 'C' {
			content++
			srvID += 4
			if err := conn.VerifC08HandleMessage(srvID, refsession.RPCResult(p.MsgID, (&refsession.W{}).U32(0x997275b5).B)); err != nil {
				return kit.Bad("harness", "op %d: rpc_result not handled: %v", i, err)
			}
			if err := <-errc; err != nil {
				return kit.Bad("invoke-failed", "op %d: Invoke returned %v", i, err)
			}
			if out.got != 1 {
				return kit.Bad("harness", "op %d: result decoded %d times", i, out.got)
			}
		}
		if f, ok := pipe.TryFrame(); ok {
			return kit.Bad("extra-frame", "op %d (%c): an unexpected second frame of %d bytes was written", i, op, len(f))
		}
	}
	return kit.OKo(fmt.Sprintf("content=%d", content))
}

func main() {
	kit.Main("C08", "exploration", func(c *kit.Ctx) {
		gen := kit.NewFamily(c, "idgen", evalGen)
		seq := kit.NewFamily(c, "seqno", evalSeq)
		if c.Replaying() {
			return
		}
		maxLen, seqLen := 5, 5
		if c.Thorough() {
			maxLen, seqLen = 6, 7
		}
		c.Rule("idgen: proto.MessageIDGen.New(FromClient) under a scripted clock: first reading from 5 bases (fraction %%4 = 0..3, 6 ns before a second boundary), "+
			"then every sequence of per-call clock steps from {-1s,-1ns,0,+1..+5ns,+10ns,+1us,+1s} up to length %d; oracle per call: id %%4 == 0, id > every earlier id, "+
			"encoded time >= previous id time and within [-3ns,+1us] of max(clock reading, previous id time). "+
			"seqno: every order of {content via Conn.Invoke, get_future_salts, msgs_ack, ping} up to length %d through a real mtproto.Conn (frames decrypted by an independent "+
			"MTProto 2.0 reference): content seq_no = 2k+1, service = 2k, msg ids increasing and %%4 == 0. distinct = distinct witnesses.", maxLen, seqLen)
		c.Assume("the sequential families run on one harness thread; concurrent writers are covered by the E-SCHED companion binary (checks/c08/sched, family sched:writers)")
		c.Assume("td's id convention (low 32 bits = nanosecond fraction) is used to decode the time of an id; 'close' is taken as 1 us above / 3 ns below")
		c.Assume("reference AES-IGE/KDF/msg_key of lib/refcrypto and the envelope layout of lib/refsession")

		// shortest sequences first so that the recorded witnesses are minimal
		var rec func(prefix []string, left int, emit func([]string))
		rec = func(prefix []string, left int, emit func([]string)) {
			if left == 0 {
				emit(prefix)
				return
			}
			for _, d := range deltaTable {
				rec(append(prefix[:len(prefix):len(prefix)], d.name), left-1, emit)
			}
		}
		for l := 0; l <= maxLen && !c.Expired(); l++ {
			var all [][]string
			rec(nil, l, func(s []string) { all = append(all, append([]string{}, s...)) })
			for _, b := range baseOrder {
				b := b
				if l <= 3 {
					for _, s := range all {
						gen.Eval(wGen{b, s})
					}
					continue
				}
				kit.Parallel(len(all), runtime.NumCPU(), func(i int) { gen.Eval(wGen{b, all[i]}) })
			}
			c.Set("idgen_max_sequence_length_completed", l)
		}
		if c.Expired() {
			c.NotExhaustive("idgen stopped by the time budget; see idgen_max_sequence_length_completed")
		}
		alpha := []byte("Csap")
		var ops func(prefix []byte, left int)
		ops = func(prefix []byte, left int) {
			if len(prefix) > 0 {
				seq.Eval(wSeq{string(prefix)})
			}
			if left == 0 {
				return
			}
			for _, a := range alpha {
				ops(append(prefix[:len(prefix):len(prefix)], a), left-1)
			}
		}
		ops(nil, seqLen)
		// E-SCHED companion: concurrent writers on one Conn (5 scenarios x 3 subtree shards; thorough 7 x 4)
		units := 15
		if c.Thorough() {
			units = 28
		}
		c.ForkSched(units, 16)
	})
}
