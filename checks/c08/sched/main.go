// C08 (E-SCHED part): message ids and sequence numbers under concurrent writers of one mtproto.Conn.
package main

import (
	"fmt"
	"sort"
	"time"

	"github.com/gotd/td/bin"
	"github.com/gotd/td/crypto"
	"github.com/gotd/td/internal/verif/kit"
	"github.com/gotd/td/internal/verif/lib/refcrypto"
	"github.com/gotd/td/internal/verif/lib/refsession"
	"github.com/gotd/td/internal/verif/lib/sx"
	"github.com/gotd/td/internal/verif/shim/vctx"
	"github.com/gotd/td/internal/verif/shim/vsched"
	"github.com/gotd/td/mtproto"
)

type params struct {
	// one letter per writer thread: 'C' content (Conn.Invoke), 's' get_future_salts, 'a' msgs_ack, 'p' ping
	Writers string `json:"writers"`
}

type rawObj struct{ id uint32 }

func (r rawObj) Encode(b *bin.Buffer) error { b.PutID(r.id); b.PutInt32(0); return nil }

type anyOut struct{}

func (anyOut) Decode(b *bin.Buffer) error { return nil }

var authKey = kit.Pattern("stream:c08-auth-key", 256)

func body(p params, o *sx.Obs) {
	var k crypto.AuthKey
	copy(k.Value[:], authKey)
	copy(k.ID[:], refcrypto.AuthKeyID(authKey))
	cli, srv := sx.NewPipe(nil, "c", "s")
	conn, err := mtproto.VerifC08NewConn(mtproto.Options{
		Clock: sx.Clock{}, Random: kit.NewStream(808), Cipher: crypto.NewClientCipher(kit.NewStream(809)),
		Key: k, Salt: 0x5a17, RetryInterval: time.Hour,
	}, cli)
	if err != nil {
		panic(err)
	}
	var g sx.Group
	ctx, cancel := vctx.WithCancel(vctx.Background())
	nContent, failed := 0, 0
	for i, w := range p.Writers {
		w := w
		switch w {
		case 'C':
			nContent++
			// nobody answers: the call stays pending until the execution ends; its frame is what matters
			vsched.GoDaemon(fmt.Sprintf("w%d-content", i), func() { _ = conn.Invoke(ctx, rawObj{0xc0ffee01}, anyOut{}) })
		default:
			kind := map[rune]int{'s': 0, 'a': 1, 'p': 2}[w]
			g.Go(fmt.Sprintf("w%d-service", i), func() {
				if err := conn.VerifC08Service(ctx, kind); err != nil {
					failed++ // e.g. its own write deadline fired first: no frame will come
				}
			})
		}
	}
	// the wire: collect frames as they arrive; once every writer's first frame is there, release the content calls
	g.Go("wire", func() {
		seen := map[int64]bool{}
		for {
			vsched.Cond("wire-await", func() bool { return srv.Pending() > 0 || len(seen) >= len(p.Writers)-failed })
			if srv.Pending() == 0 {
				break
			}
			f := srv.TryRecv()
			pl, err := refsession.Open(authKey, 0, f)
			if err != nil {
				o.Log("frame-undecryptable %v", err)
				return
			}
			if seen[pl.MsgID] {
				// a retransmission of a pending content message (same id, C25's subject); must be identical
				o.Log("retransmission id=%d seq=%d", pl.MsgID, pl.SeqNo)
				continue
			}
			seen[pl.MsgID] = true
			id, _ := (&bin.Buffer{Buf: pl.Data()}).PeekID()
			kind := "service"
			if id == 0xc0ffee01 {
				kind = "content"
			}
			o.Log("frame id=%d seq=%d kind=%s", pl.MsgID, pl.SeqNo, kind)
		}
	})
	g.Wait()
	_ = cancel
}

func scan(s, format string, a ...any) bool {
	n, err := fmt.Sscanf(s, format, a...)
	return err == nil && n == len(a)
}

func check(p params, o *sx.Obs, x *vsched.Sched) kit.Result {
	if x.StepLimit {
		return kit.Result{Outcome: "step-limit", Trivial: true}
	}
	if x.Deadlock {
		return kit.Bad("stuck", "writers never finished: %v; %s", x.Blocked, o.String())
	}
	if o.Has("frame-undecryptable") {
		return kit.Bad("frame-undecryptable", "%s", o.String())
	}
	type fr struct {
		id   int64
		seq  int32
		kind string
	}
	var frames []fr
	for _, e := range o.Events {
		var f fr
		if scan(e, "frame id=%d seq=%d kind=%s", &f.id, &f.seq, &f.kind) {
			frames = append(frames, f)
		}
	}
	if len(frames) > len(p.Writers) {
		return kit.Bad("frame-count", "%d distinct frames for %d writers", len(frames), len(p.Writers))
	}
	wire := ""
	for _, f := range frames {
		wire += f.kind[:1]
	}
	sort.Slice(frames, func(i, j int) bool { return frames[i].id < frames[j].id })
	content := int32(0)
	for i, f := range frames {
		if i > 0 && f.id == frames[i-1].id {
			return kit.Bad("duplicate-id", "two concurrent writers got the same message id %d", f.id)
		}
		if f.id%4 != 0 {
			return kit.Bad("id-not-client-typed", "message id %d is not divisible by 4", f.id)
		}
		want := content * 2
		if f.kind == "content" {
			want++
		}
		if f.seq != want {
			return kit.Bad("seqno-rule", "in id order, message #%d (%s, id %d) has seqno %d, expected %d (%d earlier content messages)", i, f.kind, f.id, f.seq, want, content)
		}
		if f.kind == "content" {
			content++
		}
	}
	return kit.OKo("wire-order=" + wire)
}

func main() {
	kit.Main("C08", "exploration", func(c *kit.Ctx) {
		scs := []params{{"CCs"}, {"CsC"}, {"Cap"}, {"CC"}, {"Cs"}}
		if c.Thorough() {
			scs = append(scs, params{"CCCs"}, params{"CspC"})
		}
		mk := func(p params) sx.Scenario[params] {
			return sx.Scenario[params]{Name: "writers", Params: p, MaxSteps: 6000, FreeBound: 6, Body: body, Check: check}
		}
		if c.Replaying() {
			sx.Explore(c, mk(scs[0]), 0, 0, 1)
			return
		}
		bound := 2
		c.Rule("E-SCHED part: 2-3 (thorough 4) concurrent writers {Conn.Invoke content message, get_future_salts, msgs_ack, ping} on one real mtproto.Conn "+
			"(instrumented mtproto/rpc/proto), frames decrypted by the reference envelope opener; every schedule with <= %d preemptions and <= 6 non-default "+
			"free choices; oracle: ids unique and divisible by 4; ordered by id, content messages carry seqno 2k+1 and service messages 2k.", bound)
		if c.Shard < 0 {
			return
		}
		sx.Explore(c, mk(scs[c.Shard%len(scs)]), bound, c.Shard/len(scs), c.Shards/len(scs))
	})
}
