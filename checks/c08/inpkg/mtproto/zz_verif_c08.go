//go:build verif

package mtproto

import (
	"context"

	"github.com/gotd/td/bin"
	"github.com/gotd/td/mt"
	"github.com/gotd/td/transport"
)

// VerifC08NewConn builds an unstarted Conn wired to the given transport (what connect() would do
// after dialing) with a session id drawn from opt.Random through the real newSessionID.
func VerifC08NewConn(opt Options, tr transport.Conn) (*Conn, error) {
	c := New(nil, opt)
	c.conn = tr
	if err := c.newSessionID(); err != nil {
		return nil, err
	}
	return c, nil
}

// VerifC08Service writes one service message through the real writeServiceMessage path.
// kind 0: get_future_salts (getSalts), 1: msgs_ack (what ackLoop sends), 2: ping (what Ping sends).
func (c *Conn) VerifC08Service(ctx context.Context, kind int) error {
	switch kind {
	case 0:
		return c.getSalts(ctx)
	case 1:
		return c.writeServiceMessage(ctx, &mt.MsgsAck{MsgIDs: []int64{4}})
	default:
		return c.writeServiceMessage(ctx, &mt.PingRequest{PingID: 7})
	}
}

// VerifC08HandleMessage delivers an already decrypted server message (what consumeMessage does).
func (c *Conn) VerifC08HandleMessage(msgID int64, data []byte) error {
	return c.handleMessage(msgID, &bin.Buffer{Buf: data})
}

// VerifC08SessionID returns the session id.
func (c *Conn) VerifC08SessionID() int64 {
	c.sessionMux.RLock()
	defer c.sessionMux.RUnlock()
	return c.sessionID
}
