//go:build verif

package mtproto

import "github.com/gotd/td/bin"

// VerifSetSessionID sets the session id a freshly created (never run) Conn uses (normally drawn from
// the random source when the connection starts).
func (c *Conn) VerifSetSessionID(id int64) {
	c.sessionMux.Lock()
	c.sessionID = id
	c.sessionMux.Unlock()
}

// VerifNewEncryptedMessage exposes newEncryptedMessage unchanged.
func (c *Conn) VerifNewEncryptedMessage(id int64, seq int32, payload bin.Encoder, b *bin.Buffer) error {
	return c.newEncryptedMessage(id, seq, payload, b)
}
