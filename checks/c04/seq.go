package main

import (
	"bytes"
	"fmt"
	"io"
	"strconv"
	"strings"

	"github.com/gotd/td/bin"
	"github.com/gotd/td/crypto"
	"github.com/gotd/td/internal/verif/kit"
	"github.com/gotd/td/internal/verif/lib/refcrypto"
	"github.com/gotd/td/mtproto"
)

// wSeq: a conversation of k messages between ONE sender and ONE receiver that keep their objects between
// messages (cipher, output buffer, Conn on the sending side; input buffer / EncryptedMessage /
// EncryptedMessageData on the receiving side). Every message is judged by the statement the moment it is received.
type wSeq struct {
	Keys    []string `json:"keys"`    // auth key of message i (Keys[i%len]); one entry = same key throughout
	Dir     string   `json:"dir"`     // c2s | s2c
	Send    string   `json:"send"`    // buf | enc (Cipher.Encrypt into one re-used output buffer) | conn:<threshold> (one mtproto.Conn)
	Recv    string   `json:"recv"`    // see recvModes
	Lens    []int    `json:"lens"`    // payload length of message i
	Nibs    []int    `json:"nibs"`    // first random byte of message i (padding blocks)
	Payload string   `json:"payload"` // kit.Pattern kind
	Fill    string   `json:"fill"`    // padding bytes
}

// recvModes: how the receiving side decodes and decrypts.
//
//	fresh          Cipher.DecryptFromBuffer on a new buffer per message (the stateless baseline)
//	buffer-reused  Cipher.DecryptFromBuffer on one bin.Buffer that is ResetN'd and refilled per message (client read loop)
//	decode-reused  one EncryptedMessage value, Decode (copying) + Cipher.Decrypt per message
//	nocopy-reused  one EncryptedMessage value, DecodeWithoutCopy + Cipher.Decrypt per message (tgtest server style)
var recvModes = []string{"fresh", "buffer-reused", "decode-reused", "nocopy-reused"}

// scriptRand serves the sender's cipher: every 1-byte read (the padding-size byte, the only 1-byte read of
// Cipher.Encrypt since padding is >= 12) takes the next scripted byte, every other read is fill.
type scriptRand struct {
	script []int
	i      int
	fill   fillReader
}

func (s *scriptRand) Read(p []byte) (int, error) {
	if len(p) == 1 {
		p[0] = byte(s.script[s.i%len(s.script)])
		s.i++
		return 1, nil
	}
	return s.fill.Read(p)
}

func evalSeq(w wSeq) kit.Result {
	k := len(w.Lens)
	if k == 0 || len(w.Nibs) != k || len(w.Keys) == 0 {
		panic("bad wSeq")
	}
	keys := make([]crypto.AuthKey, len(w.Keys))
	for i, s := range w.Keys {
		keys[i] = authKey(s)
	}
	rnd := &scriptRand{script: w.Nibs, fill: fillReader{kind: w.Fill}}
	var enc, dec crypto.Cipher
	switch w.Dir {
	case "c2s":
		enc, dec = crypto.NewClientCipher(rnd), crypto.NewServerCipher(nil)
	case "s2c":
		enc, dec = crypto.NewServerCipher(rnd), crypto.NewClientCipher(nil)
	default:
		panic("bad dir")
	}

	// sender state
	var (
		out  bin.Buffer // re-used output buffer
		conn *mtproto.Conn
	)
	const session0 = int64(-0x1112131415161718)
	const salt0 = int64(0x0102030405060708)
	isConn := strings.HasPrefix(w.Send, "conn:")
	if isConn {
		if w.Dir != "c2s" || len(w.Keys) != 1 {
			panic("conn sender is a client with one key")
		}
		th, err := strconv.Atoi(strings.TrimPrefix(w.Send, "conn:"))
		if err != nil {
			panic(err)
		}
		conn = mtproto.New(nil, mtproto.Options{
			Key:               keys[0],
			Salt:              salt0,
			Random:            kit.NewStream(4),
			Cipher:            enc,
			CompressThreshold: th,
			Clock:             fixedClock{},
			MessageID:         fixedID{},
		})
		conn.VerifSetSessionID(session0)
	}

	// receiver state
	var (
		rbuf bin.Buffer
		rmsg crypto.EncryptedMessage
		rdat crypto.EncryptedMessageData // re-used plaintext decoder, see below
	)

	shape := "first-only"
	prevWire := -1
	sawShrink, sawGrow, sawEqual := false, false, false
	gz := false
	for i := 0; i < k; i++ {
		key := keys[i%len(keys)]
		payload := kit.Pattern(w.Payload, w.Lens[i])
		for j := range payload { // make messages of one conversation differ
			payload[j] ^= byte(i * 0x35)
		}
		salt, session := salt0, session0
		if !isConn {
			salt, session = salt0+int64(i), session0-int64(i)
		}
		msgID, seq := int64(0x5f5e100000000001)+int64(4*i), int32(2*i+1)

		dataLen := w.Lens[i]
		switch {
		case isConn:
			dataLen = -1 // may be gzip_packed
			if err := conn.VerifNewEncryptedMessage(msgID, seq, rawEncoder(payload), &out); err != nil {
				return kit.Bad("encrypt-error@seq", "message %d: %v", i, err)
			}
		default:
			d := crypto.EncryptedMessageData{Salt: salt, SessionID: session, MessageID: msgID, SeqNo: seq}
			if w.Send == "buf" {
				d.MessageDataLen = int32(len(payload))
				d.MessageDataWithPadding = append([]byte(nil), payload...)
			} else {
				d.Message = rawEncoder(payload)
			}
			if err := enc.Encrypt(key, d, &out); err != nil {
				return kit.Bad("encrypt-error@seq", "message %d: %v", i, err)
			}
		}
		wire := append([]byte(nil), out.Buf...) // what travels

		if prevWire >= 0 {
			switch {
			case len(wire) < prevWire:
				sawShrink = true
			case len(wire) > prevWire:
				sawGrow = true
			default:
				sawEqual = true
			}
		}
		prevWire = len(wire)

		decrypt := func(wb []byte) (*crypto.EncryptedMessageData, error) {
			switch w.Recv {
			case "fresh":
				return dec.DecryptFromBuffer(key, &bin.Buffer{Buf: append([]byte(nil), wb...)})
			case "buffer-reused":
				rbuf.ResetN(len(wb))
				copy(rbuf.Buf, wb)
				return dec.DecryptFromBuffer(key, &rbuf)
			case "decode-reused":
				if err := rmsg.Decode(&bin.Buffer{Buf: append([]byte(nil), wb...)}); err != nil {
					return nil, fmt.Errorf("EncryptedMessage.Decode: %w", err)
				}
				return dec.Decrypt(key, &rmsg)
			case "nocopy-reused":
				if err := rmsg.DecodeWithoutCopy(&bin.Buffer{Buf: append([]byte(nil), wb...)}); err != nil {
					return nil, fmt.Errorf("EncryptedMessage.DecodeWithoutCopy: %w", err)
				}
				return dec.Decrypt(key, &rmsg)
			}
			panic("bad recv mode")
		}
		var got *crypto.EncryptedMessageData
		r := judgeWireWith(wire, func(wb []byte) (*crypto.EncryptedMessageData, error) {
			g, err := decrypt(wb)
			got = g
			return g, err
		}, salt, session, msgID, seq, dataLen, func(data []byte) (string, bool) {
			if bytes.Equal(data, payload) {
				return "", true
			}
			if !isConn {
				return fmt.Sprintf("decrypted payload (%d bytes) differs from the %d bytes sent", len(data), len(payload)), false
			}
			un, err := refcrypto.UnpackGzipPacked(data)
			if err != nil {
				return fmt.Sprintf("decrypted data (%d bytes) is neither the payload (%d bytes) nor a gzip_packed of it: %v", len(data), len(payload), err), false
			}
			if !bytes.Equal(un, payload) {
				return fmt.Sprintf("gzip_packed content (%d bytes) differs from the payload (%d bytes)", len(un), len(payload)), false
			}
			gz = true
			return "", true
		})
		if r.Class != "" {
			if w.Recv != "fresh" { // the stateless receiver reports the same class as the single-message families
				r.Class += "@" + w.Recv
			}
			r.Msg = fmt.Sprintf("message %d of the conversation (payload %d bytes, wire %d bytes): %s", i, w.Lens[i], len(wire), r.Msg)
			return r
		}

		// The decrypted plaintext also has a copying decoder that re-uses its storage
		// (EncryptedMessageData.Decode); the receiver keeps one value of it for the conversation. It has to
		// yield the very same fields and payload.
		var pt bin.Buffer
		if err := got.Encode(&pt); err != nil {
			return kit.Bad("plaintext-reencode-error", "message %d: %v", i, err)
		}
		if err := rdat.Decode(&pt); err != nil {
			return kit.Bad("plaintext-decode-error@data-reused", "message %d: EncryptedMessageData.Decode: %v", i, err)
		}
		if rdat.Salt != salt || rdat.SessionID != session || rdat.MessageID != msgID || rdat.SeqNo != seq ||
			rdat.MessageDataLen != got.MessageDataLen || !bytes.Equal(rdat.MessageDataWithPadding, got.MessageDataWithPadding) {
			return kit.Bad("plaintext-decode-mismatch@data-reused",
				"message %d: a re-used EncryptedMessageData decodes the plaintext to salt=%d session=%d msg_id=%d seq=%d len=%d data+padding=%d bytes, expected %d %d %d %d %d and %d bytes",
				i, rdat.Salt, rdat.SessionID, rdat.MessageID, rdat.SeqNo, rdat.MessageDataLen, len(rdat.MessageDataWithPadding),
				salt, session, msgID, seq, got.MessageDataLen, len(got.MessageDataWithPadding))
		}
	}
	switch {
	case sawShrink && sawGrow:
		shape = "shrink+grow"
	case sawShrink:
		shape = "shrink"
	case sawGrow:
		shape = "grow"
	case sawEqual:
		shape = "equal"
	}
	send := w.Send
	if isConn {
		send = "conn"
		if gz {
			send = "conn-gzip"
		}
	}
	return kit.OKo(w.Dir + "/" + send + "/" + w.Recv + "/" + shape)
}

// tuples calls fn with every element of alphabet^k.
func tuples(alphabet []int, k int, fn func(t []int)) {
	t := make([]int, k)
	var rec func(i int)
	rec = func(i int) {
		if i == k {
			fn(append([]int(nil), t...))
			return
		}
		for _, a := range alphabet {
			t[i] = a
			rec(i + 1)
		}
	}
	rec(0)
}

// seqCases enumerates the conversations.
func seqCases(thorough bool) []wSeq {
	var ws []wSeq
	// alphabet of (payload length, nibble) symbols, encoded len*16+nib
	sym := func(lens, nibs []int) []int {
		var a []int
		for _, l := range lens {
			for _, n := range nibs {
				a = append(a, l*16+n)
			}
		}
		return a
	}
	split := func(t []int) (lens, nibs []int) {
		for _, s := range t {
			lens = append(lens, s/16)
			nibs = append(nibs, s%16)
		}
		return
	}
	lensQ := []int{0, 4, 16, 64, 256, 1024, 2048}
	lensT := []int{0, 4, 8, 12, 16, 32, 64, 128, 256, 512, 1024, 2048, 4096, 65536}

	// (s1) Cipher.Encrypt senders, one key
	type plan struct {
		lens, nibs []int
		k          int
	}
	plans := []plan{{lensQ, []int{0, 15}, 2}, {lensQ, []int{0, 15}, 3}}
	if thorough {
		plans = []plan{{lensT, []int{0, 1, 15}, 2}, {lensT, []int{0, 15}, 3}, {lensQ, []int{0, 15}, 4}}
	}
	for _, p := range plans {
		tuples(sym(p.lens, p.nibs), p.k, func(t []int) {
			lens, nibs := split(t)
			for _, d := range []string{"c2s", "s2c"} {
				for _, s := range []string{"buf", "enc"} {
					for _, r := range recvModes {
						ws = append(ws, wSeq{Keys: []string{"sha:c04-a"}, Dir: d, Send: s, Recv: r, Lens: lens, Nibs: nibs, Payload: "count", Fill: "count"})
					}
				}
			}
		})
	}
	// (s2) the receiver serves two auth keys alternately with the same objects
	k2 := 3
	if thorough {
		k2 = 4
	}
	for k := 2; k <= k2; k++ {
		tuples(sym(lensQ, []int{0}), k, func(t []int) {
			lens, nibs := split(t)
			for _, d := range []string{"c2s", "s2c"} {
				for _, s := range []string{"buf", "enc"} {
					for _, r := range recvModes {
						ws = append(ws, wSeq{Keys: []string{"count", "sha:c04-b"}, Dir: d, Send: s, Recv: r, Lens: lens, Nibs: nibs, Payload: "stream:p", Fill: "ff"})
					}
				}
			}
		})
	}
	// (s3) one mtproto.Conn sends the conversation (pooled payload buffer, re-used output buffer), lengths on both sides
	// of the compression thresholds
	lensC := []int{0, 4, 64, 68, 1024, 1028, 4096}
	for _, th := range []int{-1, 0, 64} {
		for _, pl := range []string{"zero", "stream:q"} {
			cplans := []plan{{lensC, []int{0, 15}, 2}, {lensC, []int{0}, 3}}
			if thorough {
				cplans = []plan{{lensC, []int{0, 15}, 2}, {lensC, []int{0, 15}, 3}, {lensC, []int{0}, 4}}
			}
			for _, p := range cplans {
				tuples(sym(p.lens, p.nibs), p.k, func(t []int) {
					lens, nibs := split(t)
					for _, r := range recvModes {
						ws = append(ws, wSeq{Keys: []string{"sha:c04-a"}, Dir: "c2s", Send: "conn:" + strconv.Itoa(th), Recv: r, Lens: lens, Nibs: nibs, Payload: pl, Fill: "count"})
					}
				})
			}
		}
	}
	return ws
}

var _ io.Reader = (*scriptRand)(nil)
