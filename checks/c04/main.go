// C04: a message encrypted by one side decrypts on the other side to exactly the same header fields
// and payload; the encrypted body length is a multiple of 16 and the random padding is 12..1024 bytes.
package main

import (
	"bytes"
	"fmt"
	"io"
	"math"
	"sync"
	"time"

	"github.com/gotd/td/bin"
	"github.com/gotd/td/clock"
	"github.com/gotd/td/crypto"
	"github.com/gotd/td/internal/verif/kit"
	"github.com/gotd/td/internal/verif/lib/refcrypto"
	"github.com/gotd/td/mtproto"
	"github.com/gotd/td/proto"
)

// wRT: one Cipher.Encrypt -> (other side) Cipher.DecryptFromBuffer round trip.
type wRT struct {
	Key     string `json:"key"`     // refcrypto.StructuredKey spec
	Dir     string `json:"dir"`     // c2s | s2c
	Mode    string `json:"mode"`    // buf: MessageDataWithPadding given; enc: Message encoder (EncodeWithoutCopy path)
	Len     int    `json:"len"`     // payload length
	Payload string `json:"payload"` // kit.Pattern kind
	Salt    int64  `json:"salt"`
	Session int64  `json:"session"`
	MsgID   int64  `json:"msg_id"`
	Seq     int32  `json:"seq"`
	Rand    int    `json:"rand_byte"` // first byte of the random stream (selects the padding size)
	Fill    string `json:"fill"`      // rest of the random stream: zero | ff | count | stream
}

// wConn: mtproto.Conn.newEncryptedMessage -> server-side DecryptFromBuffer.
type wConn struct {
	Key       string `json:"key"`
	Threshold int    `json:"compress_threshold"` // Options.CompressThreshold (<0 off, 0 default 1024)
	Len       int    `json:"len"`
	Payload   string `json:"payload"`
	Salt      int64  `json:"salt"`
	Session   int64  `json:"session"`
	MsgID     int64  `json:"msg_id"`
	Seq       int32  `json:"seq"`
	Rand      int    `json:"rand_byte"`
	Fill      string `json:"fill"`
}

type fillReader struct {
	kind string
	i    int
	s    *kit.Stream
}

func (f *fillReader) Read(p []byte) (int, error) {
	switch f.kind {
	case "zero":
		for i := range p {
			p[i] = 0
		}
	case "ff":
		for i := range p {
			p[i] = 0xff
		}
	case "count":
		for i := range p {
			p[i] = byte(f.i)
			f.i++
		}
	default:
		if f.s == nil {
			f.s = kit.NewStream(0xC04)
		}
		// byte-granular so that the stream does not depend on the read sizes
		var one [1]byte
		for i := range p {
			f.s.Read(one[:])
			p[i] = one[0]
		}
	}
	return len(p), nil
}

func randStream(first int, fill string) io.Reader {
	return io.MultiReader(bytes.NewReader([]byte{byte(first)}), &fillReader{kind: fill})
}

// rawEncoder writes its bytes verbatim (a bin.Encoder whose encoding is the payload).
type rawEncoder []byte

func (r rawEncoder) Encode(b *bin.Buffer) error { b.Put(r); return nil }

type fixedClock struct{}

func (fixedClock) Now() time.Time                      { return time.Unix(1700000000, 0) }
func (fixedClock) Timer(d time.Duration) clock.Timer   { panic("c04: unexpected Timer") }
func (fixedClock) Ticker(d time.Duration) clock.Ticker { panic("c04: unexpected Ticker") }

type fixedID struct{}

func (fixedID) New(t proto.MessageType) int64 { panic("c04: unexpected MessageID.New") }

var (
	padMu   sync.Mutex
	padSeen = map[int]int64{}
)

func notePad(p int) {
	padMu.Lock()
	padSeen[p]++
	padMu.Unlock()
}

// judgeWire checks the statement on one encrypted message `wire` that was made from
// (salt, session, msgID, seq, payload): body%16, padding range, and that the receiving
// side decrypts exactly these values. wantData is what Data() must return; for the gzip path
// it is checked by the caller through unpack.
func judgeWire(wire []byte, key crypto.AuthKey, dec crypto.Cipher, salt, session, msgID int64, seq int32,
	dataLen int, checkData func(got []byte) (string, bool)) kit.Result {
	return judgeWireWith(wire, func(w []byte) (*crypto.EncryptedMessageData, error) {
		return dec.DecryptFromBuffer(key, &bin.Buffer{Buf: append([]byte(nil), w...)})
	}, salt, session, msgID, seq, dataLen, checkData)
}

// judgeWireWith is judgeWire with the receiving side's decode+decrypt step given by the caller (so that the
// receiver may keep and re-use its own objects between messages).
func judgeWireWith(wire []byte, decrypt func(wire []byte) (*crypto.EncryptedMessageData, error), salt, session, msgID int64, seq int32,
	dataLen int, checkData func(got []byte) (string, bool)) kit.Result {
	if len(wire) < 24 {
		return kit.Bad("short-output", "encrypted message is %d bytes (< 24)", len(wire))
	}
	body := wire[24:]
	if len(body)%16 != 0 {
		return kit.Bad("body-unaligned", "encrypted body length %d is not a multiple of 16", len(body))
	}
	pad := len(body) - 32 - dataLen
	if dataLen >= 0 {
		if pad < 12 {
			return kit.Bad("padding<12", "padding %d bytes (body %d, data %d)", pad, len(body), dataLen)
		}
		if pad > 1024 {
			return kit.Bad("padding>1024", "padding %d bytes (body %d, data %d)", pad, len(body), dataLen)
		}
	}
	got, err := decrypt(wire)
	if err != nil {
		return kit.Bad("decrypt-error", "peer rejects the message: %v", err)
	}
	if got == nil {
		return kit.Bad("decrypt-nil", "peer returned (nil, nil)")
	}
	switch {
	case got.Salt != salt:
		return kit.Bad("field-mismatch:salt", "salt %d != %d", got.Salt, salt)
	case got.SessionID != session:
		return kit.Bad("field-mismatch:session", "session %d != %d", got.SessionID, session)
	case got.MessageID != msgID:
		return kit.Bad("field-mismatch:msg_id", "msg_id %d != %d", got.MessageID, msgID)
	case got.SeqNo != seq:
		return kit.Bad("field-mismatch:seq_no", "seq_no %d != %d", got.SeqNo, seq)
	}
	n := int(got.MessageDataLen)
	if n < 0 || n > len(got.MessageDataWithPadding) {
		return kit.Bad("field-mismatch:length", "length field %d outside decrypted data of %d bytes", n, len(got.MessageDataWithPadding))
	}
	if dataLen >= 0 && n != dataLen {
		return kit.Bad("field-mismatch:length", "length field %d != %d", n, dataLen)
	}
	rpad := len(got.MessageDataWithPadding) - n
	if rpad < 12 {
		return kit.Bad("padding<12", "receiver sees %d padding bytes", rpad)
	}
	if rpad > 1024 {
		return kit.Bad("padding>1024", "receiver sees %d padding bytes", rpad)
	}
	if why, ok := checkData(got.Data()); !ok {
		return kit.Bad("payload-mismatch", "%s", why)
	}
	notePad(rpad)
	return kit.OK()
}

func authKey(spec string) crypto.AuthKey {
	var k crypto.Key
	copy(k[:], refcrypto.StructuredKey(spec))
	return k.WithID()
}

func evalRT(w wRT) kit.Result {
	key := authKey(w.Key)
	payload := kit.Pattern(w.Payload, w.Len)
	rnd := randStream(w.Rand, w.Fill)
	var enc, dec crypto.Cipher
	switch w.Dir {
	case "c2s":
		enc, dec = crypto.NewClientCipher(rnd), crypto.NewServerCipher(nil)
	case "s2c":
		enc, dec = crypto.NewServerCipher(rnd), crypto.NewClientCipher(nil)
	default:
		panic("bad dir")
	}
	d := crypto.EncryptedMessageData{Salt: w.Salt, SessionID: w.Session, MessageID: w.MsgID, SeqNo: w.Seq}
	switch w.Mode {
	case "buf":
		d.MessageDataLen = int32(w.Len)
		d.MessageDataWithPadding = append([]byte(nil), payload...)
	case "enc":
		d.Message = rawEncoder(payload)
	default:
		panic("bad mode")
	}
	b := &bin.Buffer{}
	if err := enc.Encrypt(key, d, b); err != nil {
		return kit.Bad("encrypt-error", "%v", err)
	}
	r := judgeWire(b.Buf, key, dec, w.Salt, w.Session, w.MsgID, w.Seq, w.Len, func(got []byte) (string, bool) {
		if !bytes.Equal(got, payload) {
			return fmt.Sprintf("decrypted payload (%d bytes) differs from the %d bytes sent", len(got), len(payload)), false
		}
		return "", true
	})
	if r.Class == "" {
		r.Outcome = w.Dir + "/" + w.Mode
	}
	return r
}

func evalConn(w wConn) kit.Result {
	key := authKey(w.Key)
	payload := kit.Pattern(w.Payload, w.Len)
	conn := mtproto.New(nil, mtproto.Options{
		Key:               key,
		Salt:              w.Salt,
		Random:            kit.NewStream(4),
		Cipher:            crypto.NewClientCipher(randStream(w.Rand, w.Fill)),
		CompressThreshold: w.Threshold,
		Clock:             fixedClock{},
		MessageID:         fixedID{},
	})
	conn.VerifSetSessionID(w.Session)
	b := &bin.Buffer{}
	if err := conn.VerifNewEncryptedMessage(w.MsgID, w.Seq, rawEncoder(payload), b); err != nil {
		return kit.Bad("encrypt-error", "%v", err)
	}
	path := "plain"
	r := judgeWire(b.Buf, key, crypto.NewServerCipher(nil), w.Salt, w.Session, w.MsgID, w.Seq, -1, func(got []byte) (string, bool) {
		if bytes.Equal(got, payload) {
			return "", true
		}
		// Not the payload itself: the only other thing the statement allows the receiver to see is the
		// payload in its gzip_packed container (compression-threshold path).
		un, err := refcrypto.UnpackGzipPacked(got)
		if err != nil {
			return fmt.Sprintf("decrypted data (%d bytes) is neither the payload (%d bytes) nor a gzip_packed of it: %v", len(got), len(payload), err), false
		}
		if !bytes.Equal(un, payload) {
			return fmt.Sprintf("gzip_packed content (%d bytes) differs from the payload (%d bytes)", len(un), len(payload)), false
		}
		path = "gzip"
		return "", true
	})
	if r.Class == "" {
		eff := w.Threshold
		if eff == 0 {
			eff = 1024
		}
		switch {
		case eff < 0:
			path = "nothreshold-" + path
		case w.Len > eff:
			path = "above-" + path
		default:
			path = "below-" + path
		}
		r.Outcome = path
	}
	return r
}

var hdrVals64 = []int64{0, 1, -1, math.MinInt64, math.MaxInt64}
var hdrVals32 = []int32{0, 1, -1, math.MinInt32, math.MaxInt32}

func main() {
	kit.Main("C04", "exploration", func(c *kit.Ctx) {
		rt := kit.NewFamily(c, "cipher-roundtrip", evalRT)
		cn := kit.NewFamily(c, "conn-newEncryptedMessage", evalConn)
		sq := kit.NewFamily(c, "conversation", evalSeq)
		if c.Replaying() {
			return
		}
		keys := []string{"count", "ff", "onehot:0:01", "onehot:255:80", "sha:c04-a", "sha:c04-b"}
		dirs := []string{"c2s", "s2c"}
		modes := []string{"buf", "enc"}
		c.Rule("cipher-roundtrip: crypto.Cipher.Encrypt by one side then DecryptFromBuffer by the other, both directions x both encode paths " +
			"(payload bytes given / bin.Encoder): (a) 6 structured 2048-bit keys {count, ff, one-hot first/last byte, 2 SHA-expanded} x every payload length " +
			"0,4,..,1024 x all 16 padding nibbles x random fill {00,FF,counter}; (b) all 256 first random bytes x lengths 0..64 step 4; " +
			"(c) header fields (salt,session,msg_id,seq_no) from {0,1,-1,min,max}^4 x lengths {0,4,16}; " +
			"thorough adds (d) every length 1028..4096 step 4 x 6 keys x nibbles {0,1,7,8,14,15}, every length 4100..65536 step 4 x 2 keys x nibbles {0,15} and (e) lengths {1MiB-4,1MiB,16MiB-64,16MiB-4} x 2 keys x nibbles {0,15}. " +
			"conn-newEncryptedMessage: the three paths of mtproto.Conn.newEncryptedMessage (threshold<0, payload<=threshold, payload>threshold -> gzip) with " +
			"thresholds {-1,0(=1024),4,64,2^20} x lengths 0..2048 step 4 (thorough ..8192 and {65536,1MiB}) x payload {zero,stream} x nibbles {0,15} x 2 keys, plus the header-value cube on each path; " +
			"decrypted by a server-side cipher, gzip_packed opened by an independent TL/gzip reader. " +
			"conversation: k messages between ONE sender and ONE receiver that keep their objects between messages - sender: one Cipher and one re-used output bin.Buffer (payload bytes given / bin.Encoder), " +
			"or one mtproto.Conn (pooled payload buffer, thresholds {-1,0,64}); receiver: {DecryptFromBuffer on a fresh buffer, DecryptFromBuffer on one ResetN'd buffer, one re-used EncryptedMessage with Decode+Decrypt, " +
			"one re-used EncryptedMessage with DecodeWithoutCopy+Decrypt}, and one re-used EncryptedMessageData that Decodes every decrypted plaintext; every message is judged when received. " +
			"All length sequences: quick k=2,3 over payload lengths {0,4,16,64,256,1024,2048} x nibbles {0,15} (every shrink/grow/equal order of body sizes), both directions; two auth keys served alternately by the same receiver objects (k=2,3); " +
			"Conn senders k=2 (nibbles {0,15}) and k=3 over lengths {0,4,64,68,1024,1028,4096} x compressible/incompressible payload. Thorough: 14 lengths to 65536 x nibbles {0,1,15} for k=2, x{0,15} for k=3, k=4 over the quick alphabet; Conn k=4. " +
			"Oracle: body%%16==0, 12<=padding<=1024 (from the wire length and as seen by the receiver), equal salt/session/msg_id/seq_no/length and payload. " +
			"distinct = distinct witnesses.")
		c.Assume("the 6 structured keys stand for 'all 2048-bit keys' (the code has no branch on key bytes); payload lengths are multiples of 4 as in the quantifier; " +
			"compress/gzip of the standard library opens what klauspost/compress wrote")

		var ws []wRT
		base := wRT{Payload: "count", Salt: 0x0102030405060708, Session: -0x1112131415161718, MsgID: 0x5f5e100000000001, Seq: 7}
		// (a)
		for _, k := range keys {
			for n := 0; n <= 1024; n += 4 {
				for nib := 0; nib < 16; nib++ {
					for _, f := range []string{"zero", "ff", "count"} {
						for _, d := range dirs {
							for _, m := range modes {
								w := base
								w.Key, w.Len, w.Rand, w.Fill, w.Dir, w.Mode = k, n, nib, f, d, m
								ws = append(ws, w)
							}
						}
					}
				}
			}
		}
		// (b)
		for n := 0; n <= 64; n += 4 {
			for rb := 16; rb < 256; rb++ {
				for _, d := range dirs {
					for _, m := range modes {
						w := base
						w.Key, w.Len, w.Rand, w.Fill, w.Dir, w.Mode, w.Payload = "sha:c04-a", n, rb, "stream", d, m, "stream:p"
						ws = append(ws, w)
					}
				}
			}
		}
		// (c)
		for _, n := range []int{0, 4, 16} {
			for _, a := range hdrVals64 {
				for _, s := range hdrVals64 {
					for _, id := range hdrVals64 {
						for _, q := range hdrVals32 {
							for _, d := range dirs {
								for _, m := range modes {
									ws = append(ws, wRT{Key: "sha:c04-b", Dir: d, Mode: m, Len: n, Payload: "ff", Salt: a, Session: s, MsgID: id, Seq: q, Rand: 3, Fill: "count"})
								}
							}
						}
					}
				}
			}
		}
		if c.Thorough() {
			// (d)
			for n := 1028; n <= 65536; n += 4 {
				ks, nibs := []string{"count", "sha:c04-a"}, []int{0, 15}
				if n <= 4096 {
					ks, nibs = keys, []int{0, 1, 7, 8, 14, 15}
				}
				for _, k := range ks {
					for _, nib := range nibs {
						for _, d := range dirs {
							for _, m := range modes {
								w := base
								w.Key, w.Len, w.Rand, w.Fill, w.Dir, w.Mode = k, n, nib, "count", d, m
								ws = append(ws, w)
							}
						}
					}
				}
			}
			// (e)
			for _, n := range []int{1<<20 - 4, 1 << 20, 16<<20 - 64, 16<<20 - 4} {
				for _, k := range []string{"count", "sha:c04-a"} {
					for _, nib := range []int{0, 15} {
						for _, d := range dirs {
							for _, m := range modes {
								w := base
								w.Key, w.Len, w.Rand, w.Fill, w.Dir, w.Mode = k, n, nib, "stream", d, m
								ws = append(ws, w)
							}
						}
					}
				}
			}
		}
		done := runAll(c, len(ws), func(i int) { rt.Eval(ws[i]) })
		if done < len(ws) {
			c.NotExhaustive("time budget: cipher-roundtrip stopped after %d of %d cases (enumeration order a,b,c,d,e)", done, len(ws))
		}
		ws = nil

		var cs []wConn
		maxLen := 2048
		if c.Thorough() {
			maxLen = 8192
		}
		cbase := wConn{Salt: 0x2122232425262728, Session: 0x3132333435363738, MsgID: 0x5f5e100000000005, Seq: 3, Fill: "count"}
		for _, th := range []int{-1, 0, 4, 64, 1 << 20} {
			var lens []int
			for n := 0; n <= maxLen; n += 4 {
				lens = append(lens, n)
			}
			if c.Thorough() {
				lens = append(lens, 65536, 1<<20, 1<<20+4)
			}
			for _, n := range lens {
				for _, p := range []string{"zero", "stream:q"} {
					for _, nib := range []int{0, 15} {
						for _, k := range []string{"count", "sha:c04-a"} {
							w := cbase
							w.Key, w.Threshold, w.Len, w.Payload, w.Rand = k, th, n, p, nib
							cs = append(cs, w)
						}
					}
				}
			}
		}
		for _, tn := range [][2]int{{-1, 8}, {0, 8}, {4, 8}, {0, 1028}} {
			for _, a := range hdrVals64 {
				for _, s := range hdrVals64 {
					for _, id := range hdrVals64 {
						for _, q := range hdrVals32 {
							cs = append(cs, wConn{Key: "sha:c04-b", Threshold: tn[0], Len: tn[1], Payload: "count", Salt: a, Session: s, MsgID: id, Seq: q, Rand: 9, Fill: "ff"})
						}
					}
				}
			}
		}
		done = runAll(c, len(cs), func(i int) { cn.Eval(cs[i]) })
		if done < len(cs) {
			c.NotExhaustive("time budget: conn-newEncryptedMessage stopped after %d of %d cases", done, len(cs))
		}

		qs := seqCases(c.Thorough())
		done = runAll(c, len(qs), func(i int) { sq.Eval(qs[i]) })
		if done < len(qs) {
			c.NotExhaustive("time budget: conversation stopped after %d of %d cases", done, len(qs))
		}
		c.Set("conversation_cases", len(qs))

		padMu.Lock()
		lo, hi := math.MaxInt32, -1
		for p := range padSeen {
			if p < lo {
				lo = p
			}
			if p > hi {
				hi = p
			}
		}
		c.Set("padding_distinct_values", len(padSeen))
		c.Set("padding_min_seen", lo)
		c.Set("padding_max_seen", hi)
		padMu.Unlock()
	})
}

// runAll evaluates cases 0..n-1 on 16 workers (in batches of 64 per hand-off), in chunks so that the
// time budget is honoured; it returns how many were completed.
func runAll(c *kit.Ctx, n int, fn func(i int)) int {
	const chunk, batch = 8192, 64
	for lo := 0; lo < n; lo += chunk {
		if c.Expired() {
			return lo
		}
		hi := lo + chunk
		if hi > n {
			hi = n
		}
		nb := (hi - lo + batch - 1) / batch
		kit.Parallel(nb, 16, func(b int) {
			for i := lo + b*batch; i < hi && i < lo+(b+1)*batch; i++ {
				fn(i)
			}
		})
	}
	return n
}
