// C17: reading any byte stream with any transport codec returns frames or an error, never panics,
// and never allocates more than the frame limit (16 MiB) for a single frame.
package main

import (
	"bytes"
	"encoding/binary"
	"fmt"
	"hash/crc32"
	"runtime"
	"runtime/debug"
	"runtime/metrics"
	"strings"
	"sync"
	"sync/atomic"

	"github.com/gotd/td/bin"
	"github.com/gotd/td/internal/verif/kit"
	rt "github.com/gotd/td/internal/verif/lib/reftransport"
	"github.com/gotd/td/proto/codec"
)

// W describes one byte stream:
//
//	stream = reference frames for payload lengths Valid (count pattern; full seqnos 0,1,..)
//	         ++ UnHex(Hex) ++ Pattern(Tail, TailLen)
//
// then, if Sub is set, stream[Sub[0]] = Sub[1]. Header: call ReadHeader first (the stream then
// starts with whatever Hex says, not necessarily the right header).
type W struct {
	Codec   string `json:"codec"`
	Header  bool   `json:"read_header,omitempty"`
	Valid   []int  `json:"valid_payloads,omitempty"`
	Hex     string `json:"hex,omitempty"`
	Tail    string `json:"tail,omitempty"`
	TailLen int    `json:"tail_len,omitempty"`
	Sub     []int  `json:"substitute,omitempty"`
	// After: number of minimal valid frames (8-byte payload) that precede everything else, so
	// that a stateful reader (full: read seqno = After) has consumed them when the crafted bytes
	// arrive.
	After int `json:"after_valid_frames,omitempty"`
	// Short: full codec only. A crafted frame of total length N (4..15) placed after the valid
	// frames: length word N, then the bytes of the expected seqno (After+SeqDelta, little endian)
	// as far as they fit before the CRC position, then counting payload bytes, then at N-4 the
	// CRC32 of everything before it (CRC "good") or that value xor 1 ("bad"). For N < 12 the
	// seqno word overlaps the CRC; whether both checks happen to be satisfiable for this After is
	// decided by the bytes (no free byte is left), the outcome label says so.
	Short *Short `json:"short_frame,omitempty"`
}

// Short is the crafted short full-codec frame.
type Short struct {
	N        int    `json:"n"`
	CRC      string `json:"crc"` // good | bad
	SeqDelta int    `json:"seq_delta,omitempty"`
}

// craft builds the short frame; sat reports whether bytes 4..8 equal the expected seqno and the
// CRC is good (i.e. a reader that checks both, in any order, gets past them).
func craft(sh Short, seq uint32) (frame []byte, sat bool) {
	n := sh.N
	frame = make([]byte, n)
	binary.LittleEndian.PutUint32(frame, uint32(n))
	if n < 8 {
		for i := 4; i < n; i++ {
			frame[i] = byte(seq >> (8 * (i - 4)))
		}
		return frame, false
	}
	want := seq + uint32(sh.SeqDelta)
	for i := 4; i < n-4; i++ {
		if i < 8 {
			frame[i] = byte(want >> (8 * (i - 4)))
		} else {
			frame[i] = byte(i*7 + 1)
		}
	}
	crc := crc32.ChecksumIEEE(frame[:n-4])
	if sh.CRC == "bad" {
		crc ^= 1
	}
	binary.LittleEndian.PutUint32(frame[n-4:], crc)
	sat = sh.CRC == "good" && binary.LittleEndian.Uint32(frame[4:8]) == seq
	return frame, sat
}

func newCodec(name string) codec.Codec {
	switch name {
	case rt.Abridged:
		return codec.Abridged{}
	case rt.Intermediate:
		return codec.Intermediate{}
	case rt.Padded:
		return codec.PaddedIntermediate{}
	case rt.Full:
		return &codec.Full{}
	}
	panic("unknown codec " + name)
}

func buildStream(w W) []byte {
	var s []byte
	eight := kit.Pattern("count", 8)
	for i := 0; i < w.After; i++ {
		s = rt.Encode(s, w.Codec, uint32(i), eight, nil)
	}
	if w.Short != nil {
		f, _ := craft(*w.Short, uint32(w.After))
		s = append(s, f...)
	}
	for i, n := range w.Valid {
		var p []byte
		if n > 1<<16 {
			p = make([]byte, n)
		} else {
			p = kit.Pattern("count", n)
		}
		s = rt.Encode(s, w.Codec, uint32(w.After+i), p, nil)
	}
	s = append(s, kit.UnHex(w.Hex)...)
	if w.TailLen > 0 {
		s = append(s, kit.Pattern(w.Tail, w.TailLen)...)
	}
	if len(w.Sub) == 2 {
		s[w.Sub[0]] = byte(w.Sub[1])
	}
	return s
}

const (
	capSlack   = 64 << 10 // allocator size-class rounding
	allocSlack = 1 << 20  // small side allocations (errors, reader bookkeeping)
)

// heapAllocated is the cumulative number of heap bytes allocated by the process
// (runtime/metrics, no stop-the-world; objects above 32 KiB are accounted immediately).
func heapAllocated() uint64 {
	var smp [1]metrics.Sample
	smp[0].Name = "/gc/heap/allocs:bytes"
	metrics.Read(smp[:])
	return smp[0].Value.Uint64()
}

// decodeOne runs one codec.Read on a fresh buffer and reports panic value, error, the buffer and
// the bytes allocated meanwhile.
func decodeOne(cd codec.Codec, r *bytes.Reader) (pv any, err error, b *bin.Buffer, allocated uint64) {
	b = &bin.Buffer{}
	a0 := heapAllocated()
	func() {
		defer func() { pv = recover() }()
		err = cd.Read(r, b)
	}()
	return pv, err, b, heapAllocated() - a0
}

// Fresh pages are very expensive to fault in on the verification host, and the background
// scavenger keeps returning the freed 16..64 MiB spans to the OS. The worker therefore runs with
// the automatic GC off (which also parks the scavenger) and collects explicitly after every case
// that allocated a lot, so that the big spans are reused. This changes nothing in the code under
// test.
var (
	gcOff     sync.Once
	warm      []byte
	sinceGC   uint64
	evalsNoGC int
)

func eval(w W) kit.Result {
	gcOff.Do(func() {
		debug.SetGCPercent(-1)
		// fault in one 72 MiB range once; every later big buffer (<= 64 MiB) is carved from it
		warm = make([]byte, 72<<20)
		for i := 0; i < len(warm); i += 4096 {
			warm[i] = 1
		}
		warm = nil
		runtime.GC()
	})
	a0 := heapAllocated()
	r := evalCase(w)
	sinceGC += heapAllocated() - a0
	evalsNoGC++
	if sinceGC > 8<<20 || evalsNoGC > 2000 {
		runtime.GC()
		sinceGC, evalsNoGC = 0, 0
	}
	return r
}

func evalCase(w W) kit.Result {
	stream := buildStream(w)
	r := bytes.NewReader(stream)
	cd := newCodec(w.Codec)
	if w.Header {
		var pv any
		var err error
		func() {
			defer func() { pv = recover() }()
			err = cd.ReadHeader(r)
		}()
		if pv != nil {
			return kit.Bad(w.Codec+":panic:header", "ReadHeader panicked: %v", pv)
		}
		if err != nil {
			return kit.OKo(w.Codec + ":header-error")
		}
	}
	frames := 0
	for i := 0; i <= len(stream)+1; i++ {
		pos := len(stream) - r.Len()
		pv, err, b, allocated := decodeOne(cd, r)
		prefix := stream[pos:]
		if len(prefix) > 8 {
			prefix = prefix[:8]
		}
		if pv != nil {
			class := w.Codec + ":panic"
			if w.Codec == rt.Full && len(prefix) >= 4 {
				if n := binary.LittleEndian.Uint32(prefix); n < 12 {
					class = "full:panic:len<12"
				}
			}
			return kit.Bad(class, "codec.Read panicked on frame %d starting at stream offset %d (next bytes %x, stream %d bytes): %v",
				frames, pos, prefix, len(stream), pv)
		}
		if c := cap(b.Buf); c > rt.FrameLimit+capSlack || allocated > rt.FrameLimit+allocSlack {
			return kit.Bad(w.Codec+":alloc>16MiB", "frame %d at stream offset %d (next bytes %x, %d bytes left in the stream): buffer capacity %d, %d bytes allocated during this one Read (limit %d), err=%v",
				frames, pos, prefix, len(stream)-pos, c, allocated, rt.FrameLimit, err)
		}
		if err != nil {
			if bad := reusePass(w, stream); bad != nil {
				return *bad
			}
			fr := frames
			if fr > 3 {
				fr = 3
			}
			if w.After > 0 || w.Short != nil {
				return kit.OKo(statefulLabel(w, frames, err))
			}
			return kit.OKo(fmt.Sprintf("%s:frames=%d:%s", w.Codec, fr, errKind(err)))
		}
		frames++
	}
	return kit.Bad(w.Codec+":no-progress", "more frames than stream bytes")
}

// reusePass decodes the same stream the way a connection does: one bin.Buffer for every Read,
// starting as a buffer that held an earlier message (64 bytes of 0xff), never replaced, and
// reading on after an error (up to 3 errors; a receive loop may retry) so that whatever an error
// path leaves in the buffer or the codec meets the next bytes. Oracle: no panic; the bytes
// allocated during one Read stay within 5/4 of the frame limit + 1 MiB (growing the caller's
// buffer goes through append, whose 1.25 growth factor is not the codec's choice; the strict bound
// is applied to the fresh-buffer pass).
func reusePass(w W, stream []byte) *kit.Result {
	r := bytes.NewReader(stream)
	cd := newCodec(w.Codec)
	if w.Header {
		if err := cd.ReadHeader(r); err != nil {
			return nil
		}
	}
	b := &bin.Buffer{Buf: bytes.Repeat([]byte{0xff}, 64)}
	errs := 0
	for i := 0; i <= len(stream)+4 && errs < 3; i++ {
		pos := len(stream) - r.Len()
		var pv any
		var err error
		a0 := heapAllocated()
		func() {
			defer func() { pv = recover() }()
			err = cd.Read(r, b)
		}()
		allocated := heapAllocated() - a0
		prefix := stream[pos:]
		if len(prefix) > 8 {
			prefix = prefix[:8]
		}
		if pv != nil {
			bad := kit.Bad(w.Codec+":panic:reused-buffer", "codec.Read into a reused buffer panicked on read %d (after %d errors) starting at stream offset %d (next bytes %x, stream %d bytes): %v", i, errs, pos, prefix, len(stream), pv)
			return &bad
		}
		if allocated > rt.FrameLimit/4*5+allocSlack {
			bad := kit.Bad(w.Codec+":alloc>limit:reused-buffer", "read %d into a reused buffer at stream offset %d (next bytes %x): %d bytes allocated during this one Read (frame limit %d), err=%v", i, pos, prefix, allocated, rt.FrameLimit, err)
			return &bad
		}
		if err != nil {
			errs++
			if r.Len() == 0 {
				break
			}
		}
	}
	return nil
}

// statefulLabel names what happened to the bytes that follow the After valid frames.
func statefulLabel(w W, frames int, err error) string {
	what := "tail"
	if w.Short != nil {
		_, sat := craft(*w.Short, uint32(w.After))
		cls := "n<8"
		switch {
		case w.Short.N >= 12:
			cls = "n=12..15"
		case w.Short.N >= 8:
			cls = "n=8..11"
		}
		what = fmt.Sprintf("short:%s:crc-%s", cls, w.Short.CRC)
		if sat {
			what += ":seq+crc-satisfied"
		}
	}
	switch {
	case frames < w.After:
		return fmt.Sprintf("%s:after-k:%s:valid-prefix-rejected:%s", w.Codec, what, errKind(err))
	case frames == w.After:
		return fmt.Sprintf("%s:after-k:%s:rejected:%s", w.Codec, what, errKind(err))
	}
	return fmt.Sprintf("%s:after-k:%s:returned-as-frame", w.Codec, what)
}

func errKind(err error) string {
	s := err.Error()
	switch {
	case strings.Contains(s, "invalid message length"):
		return "bad-length"
	case strings.Contains(s, "protocol error"), strings.Contains(s, "auth key not found"), strings.Contains(s, "transport flood"), strings.Contains(s, "wrong DC"):
		return "protocol-error"
	case strings.Contains(s, "crc"):
		return "crc"
	case strings.Contains(s, "seq_no"):
		return "seqno"
	case strings.Contains(s, "EOF"):
		return "eof"
	}
	return "other"
}

func le32(n uint32) string {
	var b [4]byte
	binary.LittleEndian.PutUint32(b[:], n)
	return kit.Hex(b[:])
}

func main() {
	kit.Main("C17", "exploration", func(c *kit.Ctx) {
		// few workers on purpose: each one pre-faults 72 MiB, and first-touch memory is the
		// dominating cost on the verification host; the per-case work is tiny
		fam := kit.NewIsolatedFamily(c, "decode", 6, 2048, eval)
		if c.Replaying() {
			return
		}
		defer fam.Close()
		c.Rule("per codec {abridged, intermediate, padded, full}: (a) every byte string of length 0..2 then EOF (quick: length 0..1 and 2-byte strings over a 24-value first byte), also after ReadHeader for strings starting with a header byte; " +
			"(b) every 4-byte prefix over the byte alphabet {00,01,03,04,08,0b,0c,7f,80,ff}^4 (quick: the two high bytes over {00,01,7f,80,ff}, accepted lengths above 1 MiB thinned to 6 low-byte pairs) followed by nothing / 64 zero bytes (seqno 0 matches) / (thorough, not abridged) 64 counting bytes; " +
			"(c) full: length n = 0..64 and {2^24-1,2^24,2^24+1,2^31-1,2^31,2^32-1} x seqno {match, mismatch} x body {absent, 4 bytes, exactly n-4, 64 bytes}, also as the second frame after a valid one; " +
			"(d) abridged: first byte 0..126 x {64, 600 zero bytes} and first byte 127..255 (quick: 7f,80,ef,ff) x 3-byte word count in {0,1,2,126,127,128,0x3fff,0x3fffff,0x400000,0x400001,0x7fffff,0x800000,0xffffff} x {nothing, 64 zero bytes}; " +
			"(e) every single-byte substitution (all 255 other values, quick: 16 values) at every position of two valid 3-frame streams (payloads 8,12,8 and 8,4,12); " +
			"(h) stateful: for every k in 0..320 (thorough 0..1200) k valid 8-byte-payload frames (so the full reader expects seqno k) followed by a crafted full frame of every total length 4..15 carrying the bytes of seqno k where they fit and, at the last 4 bytes, the reference CRC32 of the preceding bytes (for lengths 8..11 seqno and CRC overlap: no byte is free, the frame satisfies both checks only for certain k, e.g. n=11 at k=44; the outcome label says when), the same with the CRC off by one bit and with seqno k+1; " +
			"and for k in {1,2,3,7,44,127,128,255,256,300} (thorough 1..300, 1000, 4096) every codec's own short/odd frames after k valid frames (full: 12 length prefixes with and without matching seqno; intermediate/padded: lengths 0..15 and out-of-range with exact/too-long/absent bodies; abridged: 7 first bytes, extended lengths around 16 MiB); " +
			"(f) largest valid frames (payload 16 MiB-12 / 16 MiB) and the first refused length; (g) 4 deterministic pseudo-random streams of every length 0..64. " +
			"Every stream is decoded frame by frame with a fresh buffer until the first error, in a worker process under ulimit -v 2 GiB, and then once more the way a connection reads: one bin.Buffer for all Reads, initially holding 64 bytes of 0xff, reading on after errors (up to 3) - no panic (class <codec>:panic:reused-buffer), bytes allocated per Read <= 5/4 x 16 MiB + 1 MiB (append growth of the caller's buffer is not the codec's choice). " +
			"Oracle: no panic, each Read returns a frame or an error, cap(buffer) <= 16 MiB + 64 KiB and bytes allocated during the Read (runtime/metrics /gc/heap/allocs:bytes) <= 16 MiB + 1 MiB. distinct = distinct witnesses.")
		c.Assume("bytes.Reader as the stream (chunking cannot influence a panic/allocation decision that depends on the length prefix only); reference encoder of lib/reftransport for the valid frames; allocation measured as the delta of runtime/metrics /gc/heap/allocs:bytes with no other goroutine running in the worker")

		var ws []W
		add := func(w W) { ws = append(ws, w) }
		alpha := []byte{0x00, 0x01, 0x03, 0x04, 0x08, 0x0b, 0x0c, 0x7f, 0x80, 0xff}
		quickFirst := []byte{0x00, 0x01, 0x02, 0x03, 0x04, 0x07, 0x08, 0x0b, 0x0c, 0x10, 0x7e, 0x7f, 0x80, 0x81, 0xdd, 0xee, 0xef, 0xfe, 0xff, 0x20, 0x40, 0x55, 0xaa, 0x0f}
		for _, cd := range rt.Protocols {
			// (a)
			add(W{Codec: cd})
			add(W{Codec: cd, Header: true})
			for a := 0; a < 256; a++ {
				add(W{Codec: cd, Hex: fmt.Sprintf("%02x", a)})
				add(W{Codec: cd, Hex: fmt.Sprintf("%02x", a), Header: true})
			}
			firsts := quickFirst
			if c.Thorough() {
				firsts = make([]byte, 256)
				for i := range firsts {
					firsts[i] = byte(i)
				}
			}
			for _, a := range firsts {
				for b := 0; b < 256; b++ {
					add(W{Codec: cd, Hex: fmt.Sprintf("%02x%02x", a, b)})
					if a == 0xef || a == 0xee || a == 0xdd {
						add(W{Codec: cd, Hex: fmt.Sprintf("%02x%02x", a, b), Header: true})
					}
				}
			}
			// (b)
			hiAlpha := alpha
			if c.Quick() {
				hiAlpha = []byte{0x00, 0x01, 0x7f, 0x80, 0xff}
			}
			for _, b0 := range alpha {
				for _, b1 := range alpha {
					for _, b2 := range hiAlpha {
						for _, b3 := range hiAlpha {
							if cd == rt.Abridged && b0 >= 0x7f {
								continue // covered (with all first bytes) by (d)
							}
							if n := uint32(b0) | uint32(b1)<<8 | uint32(b2)<<16 | uint32(b3)<<24; c.Quick() && cd != rt.Abridged &&
								n > 1<<20 && n <= rt.FrameLimit && !((b0 == 0 || b0 == 0x0b || b0 == 0xff) && (b1 == 0 || b1 == 0xff)) {
								continue // quick: thin out the accepted multi-MiB lengths (each costs a multi-MiB allocation)
							}
							h := kit.Hex([]byte{b0, b1, b2, b3})
							add(W{Codec: cd, Hex: h})
							add(W{Codec: cd, Hex: h, Tail: "zero", TailLen: 64})
							if c.Thorough() && cd != rt.Abridged {
								add(W{Codec: cd, Hex: h, Tail: "count", TailLen: 64})
							}
						}
					}
				}
			}
			// (e)
			for _, valid := range [][]int{{8, 12, 8}, {8, 4, 12}} {
				base := buildStream(W{Codec: cd, Valid: valid})
				for pos := range base {
					for v := 0; v < 256; v++ {
						if byte(v) == base[pos] {
							continue
						}
						if c.Quick() && v%17 != 0 && v != 0xff && v != 0x7f && v != 0x80 {
							continue
						}
						add(W{Codec: cd, Valid: valid, Sub: []int{pos, v}})
					}
				}
				add(W{Codec: cd, Valid: valid})
			}
			add(W{Codec: cd, Valid: []int{4}})
			// (g)
			for n := 0; n <= 64; n++ {
				for _, p := range []string{"stream:a", "stream:b", "stream:c", "ff"} {
					add(W{Codec: cd, Tail: p, TailLen: n})
				}
			}
		}
		// (c)
		fullN := []uint32{1<<24 - 1, 1 << 24, 1<<24 + 1, 1<<31 - 1, 1 << 31, 1<<32 - 1}
		for n := uint32(0); n <= 64; n++ {
			fullN = append(fullN, n)
		}
		for _, n := range fullN {
			for _, second := range []bool{false, true} {
				for _, match := range []bool{true, false} {
					seq := uint32(0)
					var valid []int
					if second {
						seq = 1
						valid = []int{8}
					}
					if !match {
						seq += 5
					}
					bodies := []int{-1, 0, 60}
					if n >= 8 && n <= 1<<16 {
						bodies = append(bodies, int(n)-8)
					}
					for _, body := range bodies {
						w := W{Codec: rt.Full, Valid: valid, Hex: le32(n)}
						if body >= 0 {
							w.Hex += le32(seq)
							w.Tail, w.TailLen = "zero", body
						}
						add(w)
					}
				}
			}
		}
		// (d)
		for a := 0; a < 127; a++ {
			add(W{Codec: rt.Abridged, Hex: fmt.Sprintf("%02x", a), Tail: "zero", TailLen: 64})
			add(W{Codec: rt.Abridged, Hex: fmt.Sprintf("%02x", a), Tail: "zero", TailLen: 600})
		}
		abFirst := []int{0x7f, 0x80, 0xef, 0xff}
		if c.Thorough() {
			abFirst = nil
			for a := 127; a < 256; a++ {
				abFirst = append(abFirst, a)
			}
		}
		words := []int{0, 1, 2, 126, 127, 128, 0x3fff, 0x3fffff, 0x400000, 0x400001, 0x7fffff, 0x800000, 0xffffff}
		for _, a := range abFirst {
			for _, n := range words {
				h := kit.Hex([]byte{byte(a), byte(n), byte(n >> 8), byte(n >> 16)})
				add(W{Codec: rt.Abridged, Hex: h})
				add(W{Codec: rt.Abridged, Hex: h, Tail: "zero", TailLen: 64})
			}
		}
		// (h) stateful: k valid frames first (full: the reader's seqno is then k), then crafted bytes
		maxK := 320
		if c.Thorough() {
			maxK = 1200
		}
		for k := 0; k <= maxK; k++ {
			for n := 4; n <= 15; n++ {
				add(W{Codec: rt.Full, After: k, Short: &Short{N: n, CRC: "good"}})
				if n >= 8 {
					add(W{Codec: rt.Full, After: k, Short: &Short{N: n, CRC: "bad"}})
					add(W{Codec: rt.Full, After: k, Short: &Short{N: n, CRC: "good", SeqDelta: 1}})
				}
			}
		}
		ks := []int{1, 2, 3, 7, 44, 127, 128, 255, 256, 300}
		if c.Thorough() {
			ks = nil
			for k := 1; k <= 300; k++ {
				ks = append(ks, k)
			}
			ks = append(ks, 1000, 4096)
		}
		for _, k := range ks {
			// full: plain length prefixes with the current seqno and zero bodies
			for _, n := range []uint32{0, 1, 3, 4, 7, 8, 11, 12, 16, rt.FrameLimit, rt.FrameLimit + 1, 1<<32 - 1} {
				add(W{Codec: rt.Full, After: k, Hex: le32(n)})
				add(W{Codec: rt.Full, After: k, Hex: le32(n) + le32(uint32(k)), Tail: "zero", TailLen: 16})
			}
			for _, cd := range []string{rt.Intermediate, rt.Padded} {
				for _, n := range []uint32{0, 1, 2, 3, 4, 5, 7, 8, 9, 15, rt.FrameLimit + 1, 1 << 31, 1<<32 - 1} {
					add(W{Codec: cd, After: k, Hex: le32(n)})
					if n < 16 {
						add(W{Codec: cd, After: k, Hex: le32(n), Tail: "ff", TailLen: int(n)})
						add(W{Codec: cd, After: k, Hex: le32(n), Tail: "ff", TailLen: int(n) + 3})
					}
				}
				add(W{Codec: cd, After: k, Hex: "0100"})
			}
			for _, first := range []int{0x00, 0x01, 0x02, 0x7e, 0x7f, 0x80, 0xff} {
				add(W{Codec: rt.Abridged, After: k, Hex: fmt.Sprintf("%02x", first)})
				add(W{Codec: rt.Abridged, After: k, Hex: fmt.Sprintf("%02x", first), Tail: "zero", TailLen: 7})
				if first >= 0x7f {
					for _, wd := range []int{0, 1, 0x400000, 0x400001, 0xffffff} {
						add(W{Codec: rt.Abridged, After: k, Hex: fmt.Sprintf("%02x%02x%02x%02x", first, wd&0xff, wd>>8&0xff, wd>>16&0xff), Tail: "zero", TailLen: 5})
					}
				}
			}
		}
		// (f)
		for _, cd := range rt.Protocols {
			add(W{Codec: cd, Valid: []int{rt.FrameLimit - 12}})
			if cd != rt.Full {
				add(W{Codec: cd, Valid: []int{rt.FrameLimit}})
			}
		}
		add(W{Codec: rt.Intermediate, Hex: le32(rt.FrameLimit + 1)})
		add(W{Codec: rt.Padded, Hex: le32(rt.FrameLimit + 1)})
		add(W{Codec: rt.Full, Hex: le32(rt.FrameLimit + 1)})
		add(W{Codec: rt.Abridged, Hex: "7f010040"}) // 16 MiB + 4
		add(W{Codec: rt.Abridged, Hex: "7fffffff"}) // 64 MiB - 4

		c.Set("cases_planned", len(ws))
		var done atomic.Int64
		kit.Parallel(len(ws), 12, func(i int) {
			if c.Expired() {
				return
			}
			fam.Eval(ws[i])
			done.Add(1)
		})
		if c.Expired() {
			c.NotExhaustive("time budget hit; %d of %d planned cases evaluated", done.Load(), len(ws))
		}
	})
}
