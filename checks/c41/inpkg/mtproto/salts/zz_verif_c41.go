//go:build verif

package salts

import "github.com/gotd/td/mt"

// VerifC41Dump returns a copy of the stored salts in storage order.
func (s *Salts) VerifC41Dump() []mt.FutureSalt {
	s.saltsMux.Lock()
	defer s.saltsMux.Unlock()
	return append([]mt.FutureSalt{}, s.salts...)
}
