//go:build verif

package mtproto

import (
	"context"

	"github.com/gotd/td/bin"
	"github.com/gotd/td/mt"
	"github.com/gotd/td/transport"
)

// VerifC41NewConn builds an unstarted Conn wired to the given transport (what connect() would do
// after dialing) with a session id drawn from opt.Random through the real newSessionID.
func VerifC41NewConn(opt Options, tr transport.Conn) (*Conn, error) {
	c := New(nil, opt)
	c.conn = tr
	if err := c.newSessionID(); err != nil {
		return nil, err
	}
	return c, nil
}

// VerifC41HandleMessage delivers an already decrypted server message (what consumeMessage does
// after decryption and the replay checks).
func (c *Conn) VerifC41HandleMessage(msgID int64, data []byte) error {
	return c.handleMessage(msgID, &bin.Buffer{Buf: data})
}

// VerifC41GetSalts writes get_future_salts through the real service-message path.
func (c *Conn) VerifC41GetSalts(ctx context.Context) error { return c.getSalts(ctx) }

// VerifC41Salt returns the salt field without refreshing it.
func (c *Conn) VerifC41Salt() int64 {
	c.sessionMux.RLock()
	defer c.sessionMux.RUnlock()
	return c.salt
}

// VerifC41FutureSalts returns the stored future salts in storage order.
func (c *Conn) VerifC41FutureSalts() []mt.FutureSalt { return c.salts.VerifC41Dump() }
