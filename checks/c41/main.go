// C41: the salt attached to outgoing messages is the last salt the server told the client or a
// future salt valid beyond the 5 min lookahead, never an expired one; a request rejected with
// bad_server_salt is re-sent exactly once with the new salt.
//
// Sequential part: (1) salts.Salts by BFS against a reference set, (2) an in-package mtproto.Conn
// driven from one harness thread (future_salts / new_session_created / clock / writes / bad salt),
// (3) bad_server_salt at every point of one request. Interleavings of several writers with the
// bad-salt handling need E-SCHED and are not covered here.
package main

import (
	"context"
	"fmt"
	"sort"
	"strings"
	"time"

	"github.com/gotd/td/bin"
	"github.com/gotd/td/crypto"
	"github.com/gotd/td/internal/verif/kit"
	"github.com/gotd/td/internal/verif/lib/refcrypto"
	"github.com/gotd/td/internal/verif/lib/refsession"
	"github.com/gotd/td/mt"
	"github.com/gotd/td/mtproto"
	"github.com/gotd/td/mtproto/salts"
)

const t0 = 1_700_000_000 // unix seconds of the start of every scenario

// ---------- reference: what the server told ----------

type told struct {
	salt  int64
	until int64 // unix seconds
}

type refSalts struct{ set []told }

func (r *refSalts) add(s int64, until int64) {
	for _, t := range r.set {
		if t.salt == s && t.until == until {
			return
		}
	}
	r.set = append(r.set, told{s, until})
	sort.Slice(r.set, func(i, j int) bool {
		if r.set[i].salt != r.set[j].salt {
			return r.set[i].salt < r.set[j].salt
		}
		return r.set[i].until < r.set[j].until
	})
}

// validPast: some window told for salt s ends strictly after the instant at (ns).
func (r *refSalts) validPast(s int64, at int64) bool {
	for _, t := range r.set {
		if t.salt == s && t.until*1e9 > at {
			return true
		}
	}
	return false
}

func (r *refSalts) knows(s int64) bool {
	for _, t := range r.set {
		if t.salt == s {
			return true
		}
	}
	return false
}

func (r *refSalts) anyValidPast(at int64) bool {
	for _, t := range r.set {
		if t.until*1e9 > at {
			return true
		}
	}
	return false
}

func (r *refSalts) key() string { return fmt.Sprint(r.set) }

// ---------- (1) salts.Salts ----------

var saltDefs = map[byte]told{
	'A': {0xA1, t0 + 100},
	'B': {0xB2, t0 + 200},
	'C': {0xC3, t0 + 200}, // same expiry as B
	'D': {0xA1, t0 + 300}, // the value of A with another window
	'E': {0xE5, t0 + 50},
}

// deadlines in ns relative to t0
var deadlineDefs = map[string]int64{
	"+49.5s": 49_500_000_000, "+50s": 50e9, "+100s": 100e9, "+150s": 150e9, "+199.999999999s": 199_999_999_999,
	"+200s": 200e9, "+250s": 250e9, "+300s": 300e9, "+301s": 301e9,
}
var deadlineOrder = []string{"+49.5s", "+50s", "+100s", "+150s", "+199.999999999s", "+200s", "+250s", "+300s", "+301s"}
var storeSets = []string{"A", "B", "C", "D", "E", "AB", "BA", "EDC", "AA", "DA", ""}

type sEv struct {
	Op       string `json:"op"` // store | get | reset
	Set      string `json:"set,omitempty"`
	Deadline string `json:"deadline,omitempty"`
}

func saltsNext() []sEv {
	var n []sEv
	for _, s := range storeSets {
		n = append(n, sEv{Op: "store", Set: s})
	}
	for _, d := range deadlineOrder {
		n = append(n, sEv{Op: "get", Deadline: d})
	}
	return append(n, sEv{Op: "reset"})
}

func buildSalts(h []sEv) kit.Step[sEv] {
	var real salts.Salts
	ref := &refSalts{}
	res := kit.Result{Trivial: true}
	for _, e := range h {
		switch e.Op {
		case "store":
			var in []mt.FutureSalt
			for i := 0; i < len(e.Set); i++ {
				d := saltDefs[e.Set[i]]
				in = append(in, mt.FutureSalt{ValidSince: int(d.until) - 3600, ValidUntil: int(d.until), Salt: d.salt})
				ref.add(d.salt, d.until)
			}
			real.Store(in)
			res = kit.OKo("store")
		case "reset":
			real.Reset()
			ref.set = nil
			res = kit.OKo("reset")
		case "get":
			at := int64(t0)*1e9 + deadlineDefs[e.Deadline]
			s, ok := real.Get(time.Unix(0, at))
			switch {
			case ok && !ref.knows(s):
				return kit.Step[sEv]{Key: "violation", Res: kit.Bad("unknown-salt-returned", "Get(t0%s) returned %#x which was never stored since the last Reset (stored: %s)", e.Deadline, s, ref.key())}
			case ok && !ref.validPast(s, at):
				return kit.Step[sEv]{Key: "violation", Res: kit.Bad("expired-salt-returned", "Get(t0%s) returned %#x whose validity does not end after the deadline (stored: %s)", e.Deadline, s, ref.key())}
			case ok:
				res = kit.OKo("get:valid-salt")
			case ref.anyValidPast(at):
				res = kit.OKo("get:none-although-a-valid-one-was-stored") // allowed: the statement only restricts what is returned
			default:
				res = kit.OKo("get:none")
			}
		}
	}
	var dump []string
	for _, f := range real.VerifC41Dump() {
		dump = append(dump, fmt.Sprintf("%x@%d", f.Salt, f.ValidUntil-t0))
	}
	return kit.Step[sEv]{Key: "impl=" + strings.Join(dump, ",") + " ref=" + ref.key(), Next: saltsNext(), Res: res}
}

// ---------- Conn rig ----------

var authKey = kit.Pattern("stream:c41-auth-key", 256)

const initialSalt = 0x5a17

type rawObj struct{ id uint32 }

func (r rawObj) Encode(b *bin.Buffer) error { b.PutID(r.id); b.PutInt32(0); return nil }

type recOut struct{ got int }

func (o *recOut) Decode(*bin.Buffer) error { o.got++; return nil }

type rig struct {
	conn  *mtproto.Conn
	pipe  *refsession.Pipe
	clk   *refsession.Clock
	srvID int64

	lastTold int64
	fut      refSalts // future salts told since the client last dropped them (Reset on bad salt)
	ever     refSalts // every future salt ever told
	labels   map[string]int
}

func newRig() (*rig, error) {
	var k crypto.AuthKey
	copy(k.Value[:], authKey)
	copy(k.ID[:], refcrypto.AuthKeyID(authKey))
	r := &rig{pipe: refsession.NewPipe(64), clk: refsession.NewClock(time.Unix(t0, 0)), srvID: refsession.MsgID(t0, 1),
		lastTold: initialSalt, labels: map[string]int{}}
	conn, err := mtproto.VerifC41NewConn(mtproto.Options{Clock: r.clk, Random: kit.NewStream(4141), Key: k, Salt: initialSalt}, r.pipe)
	if err != nil {
		return nil, err
	}
	r.conn = conn
	return r, nil
}

func (r *rig) deliver(data []byte) error {
	r.srvID += 4
	return r.conn.VerifC41HandleMessage(r.srvID, data)
}

const lookahead = int64(5 * time.Minute)

// judgeFrame is the first sentence of the statement applied to one written frame. pre is the
// Conn's salt field before the write started.
func (r *rig) judgeFrame(p refsession.Plain, pre int64) kit.Result {
	now := r.clk.Peek().UnixNano()
	s := p.Salt
	switch {
	case s == r.lastTold:
		r.labels["last-told"]++
		return kit.OK()
	case r.fut.validPast(s, now+lookahead) || r.ever.validPast(s, now+lookahead):
		r.labels["future-valid-past-lookahead"]++
		return kit.OK()
	}
	chosen := "kept"
	if s != pre {
		chosen = "adopted"
	}
	switch {
	case !r.ever.knows(s):
		return kit.Bad("unknown-salt-attached", "frame carries salt %#x which the server never told (last told %#x, future salts %s)", s, r.lastTold, r.ever.key())
	case r.ever.validPast(s, now):
		if chosen == "adopted" {
			return kit.Bad("adopted-salt-inside-lookahead", "write at t0+%ds switched to future salt %#x whose validity does not end after the 5 min lookahead (%s)", (now-t0*1e9)/1e9, s, r.ever.key())
		}
		// The salt was chosen earlier, when it was valid past the lookahead, is still valid now and no
		// better one is known. The statement's "future salt whose validity ends after the lookahead
		// window" is read as a condition at the time the salt is chosen.
		r.labels["kept-adopted-salt-still-valid"]++
		return kit.OK()
	}
	if chosen == "adopted" {
		return kit.Bad("adopted-expired-salt", "write at t0+%ds switched to future salt %#x which is already expired (%s)", (now-t0*1e9)/1e9, s, r.ever.key())
	}
	// An adopted future salt has expired and the client knows no other salt. See check.json/note:
	// read as "the last salt the server told the client" (the future_salts answer told it).
	r.labels["kept-adopted-salt-now-expired"]++
	if strictExpired {
		return kit.Bad("kept-expired-salt-attached", "write at t0+%ds carries future salt %#x although its validity ended (%s) and the last explicitly told salt is %#x", (now-t0*1e9)/1e9, s, r.ever.key(), r.lastTold)
	}
	return kit.OK()
}

// strictExpired: treat a kept, meanwhile expired adopted salt as a violation of "never a salt
// already expired". Off: see check.json.
const strictExpired = false

func (r *rig) openFrame(f []byte) (refsession.Plain, error) {
	return refsession.Open(authKey, refsession.FromClient, f)
}

var futureSets = map[string][]told{
	"near": {{0x51, t0 + 3*60}},                                         // ends inside the first lookahead
	"mid":  {{0x52, t0 + 8*60}},                                         //
	"far":  {{0x53, t0 + 70*60}},                                        //
	"mix":  {{0x52, t0 + 8*60}, {0x53, t0 + 70*60}, {0x54, t0 + 40*60}}, // overlapping
	"old":  {{0x55, t0 - 60}},                                           // expired when told
}

func (r *rig) tellFuture(name string) error {
	var fs []refsession.FutureSalt
	for _, t := range futureSets[name] {
		fs = append(fs, refsession.FutureSalt{ValidSince: int32(t.until - 3600), ValidUntil: int32(t.until), Salt: t.salt})
		r.fut.add(t.salt, t.until)
		r.ever.add(t.salt, t.until)
	}
	return r.deliver(refsession.FutureSalts(0, int32(r.clk.Peek().Unix()), fs))
}

// invoke starts a content request and returns its first frame.
type call struct {
	out  *recOut
	errc chan error
	pre  int64
}

func (r *rig) startInvoke() (*call, []byte, error) {
	c := &call{out: &recOut{}, errc: make(chan error, 1), pre: r.conn.VerifC41Salt()}
	go func() { c.errc <- r.conn.Invoke(context.Background(), rawObj{0xc4f9186b}, c.out) }()
	select {
	case f := <-r.pipe.Frames:
		return c, f, nil
	case err := <-c.errc:
		return nil, nil, fmt.Errorf("Invoke returned %v before writing", err)
	}
}

// nextOf waits until the pending call either writes another frame or returns.
func (r *rig) nextOf(c *call) (frame []byte, done bool, err error) {
	select {
	case f := <-r.pipe.Frames:
		return f, false, nil
	case err := <-c.errc:
		return nil, true, err
	case <-time.After(30 * time.Second):
		return nil, true, errStuck
	}
}

var errStuck = fmt.Errorf("neither a frame nor a return within the watchdog time")

var boolTrue = (&refsession.W{}).U32(0x997275b5).B

// ---------- (2) Conn histories ----------

type cEv struct {
	Op  string `json:"op"` // future | session | time | write | invoke | badsalt
	Arg string `json:"arg,omitempty"`
}

func connNext() []cEv {
	n := []cEv{{Op: "write"}, {Op: "invoke"}, {Op: "badsalt"}}
	for _, s := range []string{"near", "mid", "far", "mix", "old"} {
		n = append(n, cEv{"future", s})
	}
	for _, s := range []string{"0x71", "0x72"} {
		n = append(n, cEv{"session", s})
	}
	for _, s := range []string{"4m", "6m", "1h"} {
		n = append(n, cEv{"time", s})
	}
	return n
}

func buildConn(h []cEv) kit.Step[cEv] {
	r, err := newRig()
	if err != nil {
		return kit.Step[cEv]{Key: "harness", Res: kit.Bad("harness", "%v", err)}
	}
	bad := func(res kit.Result) kit.Step[cEv] { return kit.Step[cEv]{Key: "violation", Res: res} }
	res := kit.Result{Trivial: true}
	badN := 0
	for i, e := range h {
		switch e.Op {
		case "future":
			if err := r.tellFuture(e.Arg); err != nil {
				return bad(kit.Bad("harness", "future_salts not handled: %v", err))
			}
			res = kit.OKo("told")
		case "session":
			var s int64
			fmt.Sscanf(e.Arg, "0x%x", &s)
			if err := r.deliver(refsession.NewSessionCreated(refsession.MsgID(t0, 0), 9, s)); err != nil {
				return bad(kit.Bad("harness", "new_session_created not handled: %v", err))
			}
			r.lastTold = s
			res = kit.OKo("told")
		case "time":
			d, _ := time.ParseDuration(e.Arg)
			r.clk.Add(d)
			res = kit.OKo("time")
		case "write":
			pre := r.conn.VerifC41Salt()
			if err := r.conn.VerifC41GetSalts(context.Background()); err != nil {
				return bad(kit.Bad("harness", "service write failed: %v", err))
			}
			f, ok := r.pipe.TryFrame()
			if !ok {
				return bad(kit.Bad("harness", "service write produced no frame"))
			}
			p, err := r.openFrame(f)
			if err != nil {
				return bad(kit.Bad("frame-undecryptable", "%v", err))
			}
			if res = r.judgeFrame(p, pre); res.Class != "" {
				res.Msg = fmt.Sprintf("event %d: %s", i, res.Msg)
				return bad(res)
			}
		case "invoke", "badsalt":
			c, f, err := r.startInvoke()
			if err != nil {
				return bad(kit.Bad("harness", "%v", err))
			}
			p, err := r.openFrame(f)
			if err != nil {
				return bad(kit.Bad("frame-undecryptable", "%v", err))
			}
			if res = r.judgeFrame(p, c.pre); res.Class != "" {
				res.Msg = fmt.Sprintf("event %d: %s", i, res.Msg)
				return bad(res)
			}
			if e.Op == "badsalt" {
				badN++
				ns := int64(0x8000 + badN)
				if err := r.deliver(refsession.BadServerSalt(p.MsgID, p.SeqNo, 48, ns)); err != nil {
					return bad(kit.Bad("harness", "bad_server_salt not handled: %v", err))
				}
				r.lastTold = ns
				r.fut = refSalts{} // the client is expected to fetch salts again; old ones stay in r.ever
				f2, done, err := r.nextOf(c)
				if done {
					return bad(kit.Bad("no-resend", "event %d: request %#x rejected with bad_server_salt was not re-sent; Invoke returned %v", i, p.MsgID, err))
				}
				p2, err := r.openFrame(f2)
				if err != nil {
					return bad(kit.Bad("frame-undecryptable", "%v", err))
				}
				if p2.Salt != ns {
					return bad(kit.Bad("resend-salt-not-new", "event %d: the re-sent request carries salt %#x, the server said %#x", i, p2.Salt, ns))
				}
				p = p2
			}
			if err := r.deliver(refsession.RPCResult(p.MsgID, boolTrue)); err != nil {
				return bad(kit.Bad("harness", "rpc_result not handled: %v", err))
			}
			f3, done, err := r.nextOf(c)
			if !done {
				return bad(kit.Bad("extra-resend", "event %d: a further frame (%d bytes) was written after the result was delivered", i, len(f3)))
			}
			if err != nil {
				return bad(kit.Bad("invoke-error", "event %d: Invoke returned %v", i, err))
			}
		}
		if f, ok := r.pipe.TryFrame(); ok {
			return bad(kit.Bad("extra-frame", "event %d (%s): unexpected extra frame of %d bytes", i, e.Op, len(f)))
		}
	}
	var lab []string
	for k := range r.labels {
		lab = append(lab, k)
	}
	sort.Strings(lab)
	if len(lab) > 0 && res.Class == "" {
		res = kit.OKo(strings.Join(lab, "+"))
	}
	var dump []string
	for _, f := range r.conn.VerifC41FutureSalts() {
		dump = append(dump, fmt.Sprintf("%x@%d", f.Salt, int64(f.ValidUntil)-t0))
	}
	key := fmt.Sprintf("t=%d salt=%x stored=%s told=%x fut=%s ever=%s bad=%d", r.clk.Peek().Unix()-t0, r.conn.VerifC41Salt(), strings.Join(dump, ","), r.lastTold, r.fut.key(), r.ever.key(), badN)
	return kit.Step[cEv]{Key: key, Next: connNext(), Res: res}
}

// ---------- (3) bad_server_salt at every point of one request ----------

type wResend struct {
	Pre   []string `json:"pre"`   // future-salt sets told (and adopted by a service write) before the request
	Gate  bool     `json:"gate"`  // true: the first server event is delivered while the request frame is still being written (Send has not returned)
	Steps []string `json:"steps"` // server events after the first frame: ack | badsalt | badsalt-other | badmsg | result
}

func evalResend(w wResend) kit.Result {
	r, err := newRig()
	if err != nil {
		return kit.Bad("harness", "%v", err)
	}
	for _, s := range w.Pre {
		if err := r.tellFuture(s); err != nil {
			return kit.Bad("harness", "%v", err)
		}
		if err := r.conn.VerifC41GetSalts(context.Background()); err != nil {
			return kit.Bad("harness", "%v", err)
		}
		if _, ok := r.pipe.TryFrame(); !ok {
			return kit.Bad("harness", "no frame for the warm-up write")
		}
	}
	r.pipe.Gate = w.Gate
	c, f, err := r.startInvoke()
	if err != nil {
		return kit.Bad("harness", "%v", err)
	}
	p, err := r.openFrame(f)
	if err != nil {
		return kit.Bad("frame-undecryptable", "%v", err)
	}
	frames, mandatory, optional := 1, 1, 0
	reqID, reqSeq := p.MsgID, p.SeqNo
	released := !w.Gate
	finished := false
	var ret error
	badN := 0
	rejectedOnce := false
	sameID := true
	for i, st := range w.Steps {
		wait := false
		expectSalt := int64(0)
		switch st {
		case "ack":
			err = r.deliver(refsession.MsgsAck(reqID))
		case "badsalt":
			badN++
			expectSalt = int64(0x8000 + badN)
			err = r.deliver(refsession.BadServerSalt(reqID, reqSeq, 48, expectSalt))
			if !finished {
				wait = true
				if !rejectedOnce {
					mandatory++
					rejectedOnce = true
				} else {
					optional++ // a second rejection of the same request: the statement admits "once per request" and "once per rejection"
				}
			}
		case "badsalt-other":
			err = r.deliver(refsession.BadServerSalt(reqID^0x40, reqSeq, 48, 0x7777))
		case "badmsg":
			err = r.deliver(refsession.BadMsgNotification(reqID, reqSeq, 16))
			wait = !finished
		case "result":
			err = r.deliver(refsession.RPCResult(reqID, boolTrue))
			wait = !finished
		default:
			return kit.Bad("bad-witness", "step %q", st)
		}
		if err != nil {
			return kit.Bad("harness", "step %d (%s) not handled: %v", i, st, err)
		}
		if !released {
			r.pipe.Release()
			released = true
		}
		if !wait {
			continue
		}
		f2, done, err2 := r.nextOf(c)
		if err2 == errStuck {
			return kit.Bad("stuck", "after step %d (%s) the request neither wrote a frame nor returned", i, st)
		}
		if done {
			finished, ret = true, err2
			if st == "badsalt" && mandatory > frames {
				return kit.Bad("no-resend", "request %#x rejected with bad_server_salt (step %d of %v) was not re-sent; Invoke returned %v", reqID, i, w.Steps, ret)
			}
			continue
		}
		frames++
		if w.Gate {
			r.pipe.Release()
		}
		p2, err := r.openFrame(f2)
		if err != nil {
			return kit.Bad("frame-undecryptable", "%v", err)
		}
		if st != "badsalt" {
			return kit.Bad("extra-resend", "step %d (%s) of %v made the client write the request again", i, st, w.Steps)
		}
		if p2.Salt != expectSalt {
			return kit.Bad("resend-salt-not-new", "after bad_server_salt(new salt %#x) the re-sent request carries salt %#x (steps %v, pre %v)", expectSalt, p2.Salt, w.Steps, w.Pre)
		}
		if p2.MsgID != reqID {
			sameID = false
		}
		reqID, reqSeq = p2.MsgID, p2.SeqNo
	}
	if !released {
		r.pipe.Release()
	}
	if !finished {
		// complete the request so that no goroutine is left behind
		_ = r.deliver(refsession.RPCResult(reqID, boolTrue))
		if _, done, _ := r.nextOf(c); !done {
			return kit.Bad("extra-resend", "a frame was written after the final result (steps %v)", w.Steps)
		}
	}
	for {
		if _, ok := r.pipe.TryFrame(); !ok {
			break
		}
		frames++
	}
	if frames < mandatory || frames > mandatory+optional {
		return kit.Bad("resend-count", "the request was written %d times, expected %d..%d (steps %v)", frames, mandatory, mandatory+optional, w.Steps)
	}
	return kit.OKo(fmt.Sprintf("frames=%d,same-id=%v,err=%v", frames, sameID, ret != nil))
}

func main() {
	kit.Main("C41", "model_checking", func(c *kit.Ctx) {
		resend := kit.NewFamily(c, "resend", evalResend)
		depth := 5
		if c.Thorough() {
			depth = 6
		}
		st := kit.BFS(c, "salts", 0, 300_000, buildSalts)
		if c.Replaying() {
			kit.BFS(c, "conn", depth, 0, buildConn)
			return
		}
		c.Set("salts_states", st.States)
		c.Set("salts_fixpoint", !st.Capped)
		st2 := kit.BFS(c, "conn", depth, 0, buildConn)
		c.Set("conn_states", st2.States)
		c.Rule("salts: BFS to the fixpoint over the real salts.Salts with Store of 11 sets over 5 salts (overlapping, equal expiry, same value with two windows, unsorted, duplicated, empty), "+
			"Get at 9 deadlines (on, just before and after every expiry, sub-second) and Reset; reference = set of (salt, valid_until) told since the last Reset; Get may only return a told salt whose window ends after the deadline. "+
			"conn: BFS to depth %d over a real in-package mtproto.Conn with events {future_salts x5 sets, new_session_created x2 salts, clock +4m/+6m/+1h, service write, Invoke, Invoke rejected by bad_server_salt}; "+
			"every written frame is decrypted by the reference and its salt must be the last told salt or a told future salt valid past now+5min; a rejected request must be written again once with the new salt. "+
			"resend: one Invoke with every sequence up to length %d of server events {ack, bad_server_salt, bad_server_salt for another id, bad_msg_notification, rpc_result}, first event delivered during or after the write, "+
			"with and without adopted future salts: number of writes and the salt of every re-send. distinct = BFS states / witnesses.", depth, resendLen(c))
		c.Assume("reference AES-IGE/KDF/msg_key (lib/refcrypto), envelope and service message layouts (lib/refsession) written from the MTProto documents")
		c.Assume("one harness thread with channel hand-offs; interleavings of several writers with the bad-salt handling (storeSalt/Reset vs. updateSalt) need E-SCHED")
		c.Assume("a future salt that was valid past the lookahead when chosen and is kept because nothing better is known counts as 'the last salt the server told' (counted in outcomes kept-adopted-*)")

		alpha := []string{"ack", "badsalt", "badsalt-other", "badmsg", "result"}
		var seqs [][]string
		var rec func(prefix []string, left int)
		rec = func(prefix []string, left int) {
			if len(prefix) > 0 {
				seqs = append(seqs, append([]string{}, prefix...))
			}
			if left == 0 {
				return
			}
			for _, a := range alpha {
				rec(append(prefix[:len(prefix):len(prefix)], a), left-1)
			}
		}
		rec(nil, resendLen(c))
		sort.SliceStable(seqs, func(i, j int) bool { return len(seqs[i]) < len(seqs[j]) })
		for _, pre := range [][]string{nil, {"far"}, {"mix"}, {"mid", "far"}} {
			for _, gate := range []bool{false, true} {
				for _, s := range seqs {
					resend.Eval(wResend{Pre: pre, Gate: gate, Steps: s})
				}
			}
		}
		// E-SCHED companion: concurrent invokers against bad_server_salt (4 scenarios x 4 subtree shards; thorough 5 x 4)
		units := 16
		if c.Thorough() {
			units = 20
		}
		c.ForkSched(units, 16)
	})
}

func resendLen(c *kit.Ctx) int {
	if c.Thorough() {
		return 5
	}
	return 4
}
