// C41 (E-SCHED part): bad_server_salt handling under concurrent invokers: one re-send with the new salt.
package main

import (
	"fmt"
	"time"

	"github.com/gotd/td/bin"
	"github.com/gotd/td/crypto"
	"github.com/gotd/td/internal/verif/kit"
	"github.com/gotd/td/internal/verif/lib/refcrypto"
	"github.com/gotd/td/internal/verif/lib/refsession"
	"github.com/gotd/td/internal/verif/lib/sx"
	"github.com/gotd/td/internal/verif/shim/vctx"
	"github.com/gotd/td/internal/verif/shim/vsched"
	"github.com/gotd/td/mtproto"
)

type params struct {
	Invokers int  `json:"invokers"` // concurrent Conn.Invoke calls
	Service  bool `json:"service"`  // plus a concurrent get_future_salts writer
}

const (
	salt1 = 0x1111
	salt2 = 0x2222
)

type rawObj struct{ id uint32 }

func (r rawObj) Encode(b *bin.Buffer) error { b.PutID(r.id); b.PutInt32(0); return nil }

type anyOut struct{}

func (anyOut) Decode(b *bin.Buffer) error { return nil }

var authKey = kit.Pattern("stream:c41s-auth-key", 256)

func body(p params, o *sx.Obs) {
	var k crypto.AuthKey
	copy(k.Value[:], authKey)
	copy(k.ID[:], refcrypto.AuthKeyID(authKey))
	cli, srv := sx.NewPipe(nil, "c", "s")
	conn, err := mtproto.VerifC41NewConn(mtproto.Options{
		Clock: sx.Clock{}, Random: kit.NewStream(41), Cipher: crypto.NewClientCipher(kit.NewStream(42)),
		Key: k, Salt: salt1, RetryInterval: time.Hour,
	}, cli)
	if err != nil {
		panic(err)
	}
	ctx := vctx.Background()
	var g sx.Group
	finished := 0
	for i := 0; i < p.Invokers; i++ {
		i := i
		g.Go(fmt.Sprintf("invoke%d", i), func() {
			err := conn.Invoke(ctx, rawObj{0xc0ffee00 + uint32(i)}, anyOut{})
			o.Log("invoke-ret %d err=%v", i, err != nil)
			finished++
		})
	}
	if p.Service {
		g.Go("service", func() { _ = conn.VerifC41GetSalts(ctx) })
	}
	// the server requires salt2: a content message with another salt is rejected with bad_server_salt(new = salt2)
	vsched.GoDaemon("server", func() {
		srvMsg := int64(0x6553f10000000001)
		for {
			vsched.Cond("srv-await", func() bool { return srv.Pending() > 0 })
			f := srv.TryRecv()
			pl, err := refsession.Open(authKey, 0, f)
			if err != nil {
				o.Log("frame-undecryptable")
				return
			}
			id, _ := (&bin.Buffer{Buf: pl.Data()}).PeekID()
			o.Log("frame msg=%d salt=%x type=%x", pl.MsgID, pl.Salt, id)
			if id&0xffffff00 != 0xc0ffee00 {
				continue // service message: the server tolerates it
			}
			srvMsg += 4
			var ans []byte
			if pl.Salt != salt2 {
				ans = refsession.BadServerSalt(pl.MsgID, pl.SeqNo, 48, salt2)
			} else {
				ans = refsession.RPCResult(pl.MsgID, (&refsession.W{}).U32(0x997275b5).B)
			}
			if err := conn.VerifC41HandleMessage(srvMsg, ans); err != nil {
				o.Log("handle-error %v", err)
			}
		}
	})
	g.Wait()
}

func check(p params, o *sx.Obs, x *vsched.Sched) kit.Result {
	if x.StepLimit {
		return kit.Result{Outcome: "step-limit", Trivial: true}
	}
	if x.Deadlock {
		return kit.Bad("stuck", "an invocation never completed: %v; %s", x.Blocked, o.String())
	}
	if len(x.TimerFires) > 0 {
		// a deviation fired the (1h) retry timer: time-driven retransmissions are C25's subject and would blur the count
		return kit.Result{Outcome: "retry-timer-fired", Trivial: true}
	}
	if o.Has("frame-undecryptable") || o.Has("handle-error") {
		return kit.Bad("harness", "%s", o.String())
	}
	type fr struct {
		salt int64
		typ  uint32
	}
	frames := map[int64][]fr{}
	var order []int64
	for _, e := range o.Events {
		var id int64
		var f fr
		if n, _ := fmt.Sscanf(e, "frame msg=%d salt=%x type=%x", &id, &f.salt, &f.typ); n == 3 {
			if f.salt != salt1 && f.salt != salt2 {
				return kit.Bad("unknown-salt", "a frame carries salt %x, which the server never told the client", f.salt)
			}
			if _, ok := frames[id]; !ok {
				order = append(order, id)
			}
			frames[id] = append(frames[id], f)
		}
	}
	resent := 0
	for _, id := range order {
		fs := frames[id]
		if fs[0].typ&0xffffff00 != 0xc0ffee00 {
			continue
		}
		switch {
		case fs[0].salt == salt2:
			if len(fs) != 1 {
				return kit.Bad("resend-without-rejection", "request %d was accepted with the right salt but transmitted %d times", id, len(fs))
			}
		default:
			// rejected with bad_server_salt: exactly one re-send, carrying the new salt
			if len(fs) != 2 {
				return kit.Bad("resend-count", "request %d was rejected with bad_server_salt and then transmitted %d more time(s) (expected exactly one)", id, len(fs)-1)
			}
			if fs[1].salt != salt2 {
				return kit.Bad("resend-salt-not-new", "the re-send of request %d carries salt %x, not the new salt %x", id, fs[1].salt, int64(salt2))
			}
			resent++
		}
	}
	for i := 0; i < p.Invokers; i++ {
		if !o.Has(fmt.Sprintf("invoke-ret %d err=false", i)) {
			return kit.Bad("invoke-failed", "invocation %d did not succeed after the bad_server_salt retry: %s", i, o.String())
		}
	}
	return kit.OKo(fmt.Sprintf("resent=%d", resent))
}

func main() {
	kit.Main("C41", "model_checking", func(c *kit.Ctx) {
		scs := []params{{1, false}, {1, true}, {2, false}, {2, true}}
		if c.Thorough() {
			scs = append(scs, params{3, false})
		}
		mk := func(p params) sx.Scenario[params] {
			return sx.Scenario[params]{Name: "badsalt", Params: p, MaxSteps: 8000, FreeBound: 6, Body: body, Check: check}
		}
		if c.Replaying() {
			sx.Explore(c, mk(scs[0]), 0, 0, 1)
			return
		}
		bound := 2
		c.Rule("E-SCHED part: 1-2 (thorough 3) concurrent Conn.Invoke calls plus an optional get_future_salts writer on one real mtproto.Conn whose server "+
			"rejects every content message not carrying the new salt with bad_server_salt; every schedule with <= %d preemptions (quick: one less for 2 invokers) and <= 6 non-default free "+
			"choices; oracle: every frame carries a salt the server told the client, a rejected request is re-sent exactly once with the new salt, an accepted one never, every Invoke succeeds.", bound)
		if c.Shard < 0 {
			return
		}
		sc := scs[c.Shard%len(scs)]
		b := bound
		if sc.Invokers > 1 && !c.Thorough() {
			b = 1
		}
		sx.Explore(c, mk(sc), b, c.Shard/len(scs), c.Shards/len(scs))
	})
}
