// C27: the pool respects its limit, never shares a connection, never hands out a dead one.
package main

import (
	"sort"

	"github.com/gotd/td/internal/verif/kit"
	"github.com/gotd/td/internal/verif/lib/poolh"
	"github.com/gotd/td/internal/verif/lib/sx"
	"github.com/gotd/td/pool"
)

func dump(dc *pool.DC) (int64, []pool.Conn, int) {
	d := pool.VerifDump(dc)
	return d.Total, d.Free, d.Waiters
}

func scenarios(thorough bool) []poolh.Params {
	s := []poolh.Params{
		{Max: 1, Callers: 2, CallsEach: 1},
		{Max: 1, Callers: 2, CallsEach: 2},
		{Max: 1, Callers: 2, CallsEach: 1, Env: []string{"kill:1"}},
		{Max: 1, Callers: 2, CallsEach: 2, Env: []string{"kill:1"}},
		{Max: 1, Callers: 2, CallsEach: 1, SlowReady: true, Env: []string{"kill:1"}},
		{Max: 2, Callers: 3, CallsEach: 1, Env: []string{"kill:1"}},
		{Max: 1, Callers: 2, CallsEach: 1, Env: []string{"cancel:1", "kill:1"}},
		{Max: 1, Callers: 4, CallsEach: 1, Staged: true, Env: []string{"finish", "cancel:2", "kill:1"}},
		// how a use ends: the caller gives up while its request is in flight and the connection reports ctx.Err(); a request
		// fails with a non-retryable error on a healthy connection (then two more callers follow on the same pool)
		{Max: 1, Callers: 2, CallsEach: 1, Env: []string{"cancel:1"}, UseErr: "ctx"},
		{Max: 1, Callers: 3, CallsEach: 1, UseErr: "app:1"},
	}
	if thorough {
		// (the thorough tier is time-capped: the smaller scenarios come first so that they complete)
		s = append(s,
			poolh.Params{Max: 1, Callers: 2, CallsEach: 2, UseErr: "app:2"},
			poolh.Params{Max: 2, Callers: 3, CallsEach: 1, Env: []string{"cancel:1"}, UseErr: "ctx"},
			poolh.Params{Max: 3, Callers: 3, CallsEach: 1, Env: []string{"kill:2"}},
			poolh.Params{Max: 1, Callers: 3, CallsEach: 1, Env: []string{"kill:1"}},
			poolh.Params{Max: 1, Callers: 3, CallsEach: 1, Env: []string{"cancel:2", "kill:1"}},
			poolh.Params{Max: 1, Callers: 3, CallsEach: 1, Staged: true, Env: []string{"finish", "cancel:2", "kill:1"}},
			poolh.Params{Max: 2, Callers: 3, CallsEach: 2, Env: []string{"kill:2"}},
			poolh.Params{Max: 2, Callers: 3, CallsEach: 1, SlowReady: true, Env: []string{"kill:1", "cancel:2"}},
		)
	}
	return s
}

func main() {
	kit.Main("C27", "model_checking", func(c *kit.Ctx) {
		scs := scenarios(c.Thorough())
		mk := func(p poolh.Params) sx.Scenario[poolh.Params] {
			return sx.Scenario[poolh.Params]{Name: "pool", Params: p, MaxSteps: 6000, KeepChanLog: true,
				Body:  func(p poolh.Params, o *sx.Obs) { poolh.Body(p, o, dump) },
				Check: poolh.CheckC27}
		}
		if c.Replaying() {
			sx.Explore(c, mk(scs[0]), 0, 0, 1)
			return
		}
		bound := 2
		c.Rule("real pool.DC (instrumented pool + tdsync) over fake connections (Run until killed, Invoke yields while in use), max 1-2, 2-3 callers x 1-2 "+
			"calls, environment {kill n-th connection, cancel caller, delayed readiness} x how a use ends {answer; ctx.Err() when the caller gave up in flight; "+
			"non-retryable failure of the n-th use on a healthy connection}; every schedule with <= %d preemptions/deviations; oracle: live "+
			"connections <= max at every creation, no connection inside two Invokes at once, no connection handed to a caller (directly or by a releasing "+
			"caller's hand-over) whose death processing (pool's 'Connection died' record) completed before that acquire / release started.", bound)
		c.Assume("internal events (creation id, death processing done, hand-over) are observed through the pool's own debug log records")
		type unit struct{ sc, shard, shards int }
		var units []unit
		for i := range scs {
			n := 4
			if c.Thorough() {
				n = 8
			}
			if scs[i].Staged {
				n = 16 // the largest schedule trees: spread them over all processes
			}
			for k := 0; k < n; k++ {
				units = append(units, unit{i, k, n})
			}
		}
		if c.Thorough() {
			// the thorough tier is time-capped and units start in list order: start the small drivers first, so that a capped
			// run has completed every scenario that can complete (the large ones are the ones cut short)
			weight := func(p poolh.Params) int {
				w := p.Callers*p.CallsEach + len(p.Env)
				if p.SlowReady {
					w += 3
				}
				if p.Staged {
					w += 3
				}
				return w
			}
			sort.SliceStable(units, func(i, j int) bool { return weight(scs[units[i].sc]) < weight(scs[units[j].sc]) })
		}
		if c.Fork(len(units), 16) {
			return
		}
		u := units[c.Shard]
		// size of the driver decides the bound that finishes within the tier's budget
		sz := scs[u.sc].Callers*scs[u.sc].CallsEach + len(scs[u.sc].Env)
		if scs[u.sc].SlowReady {
			sz++
		}
		b := bound
		if (!c.Thorough() && sz > 3) || sz > 4 {
			b = 1
		}
		sc := mk(scs[u.sc])
		if scs[u.sc].Staged {
			// the staged driver fixes the order in which callers arrive; what remains free is the race of the environment events
			b = 1
			sc.FreeBound = 4
			if c.Thorough() {
				b = 2
				sc.FreeBound = 6
			}
		}
		if scs[u.sc].SlowReady {
			// delayed readiness adds a network thread whose order against everything else is free:
			// cap the number of non-default cost-free choices as well
			sc.FreeBound = 4
			if c.Thorough() {
				sc.FreeBound = 6
			}
		}
		sx.Explore(c, sc, b, u.shard, u.shards)
	})
}
