// C24: each RPC call completes once with its own result and is then left alone.
// E-SCHED: real rpc.Engine (instrumented), virtual clock, all interleavings of callers with
// environment threads (ack, result, duplicate result, result for another id, rpc error, cancel,
// force close) up to a preemption bound.
package main

import (
	"context"
	"errors"
	"fmt"
	"strings"
	"time"

	"github.com/gotd/td/bin"
	"github.com/gotd/td/internal/verif/kit"
	"github.com/gotd/td/internal/verif/lib/sx"
	"github.com/gotd/td/internal/verif/shim/vctx"
	"github.com/gotd/td/internal/verif/shim/vsched"
	"github.com/gotd/td/rpc"
)

type params struct {
	Calls int `json:"calls"` // message ids 1..Calls
	// Env: environment threads, e.g. "ack:1", "result:1", "result:2", "error:1", "cancel:1", "close". A suffix "@k" on ack/result/error
	// makes the "server" react to the k-th transmission of the request only (the earlier copies were lost): "result:1@2".
	Env []string `json:"env"`
	// SendErr: the transport reports a write error for call 1 although the bytes went out,
	// so the server can still answer the request whose Do is returning with that error
	SendErr bool `json:"send_err,omitempty"`
	// SendErrAt: the same for the k-th transmission of call 1 (a re-send); SendErr is SendErrAt=1
	SendErrAt int `json:"send_err_at,omitempty"`
	// MaxRetries of the engine (0 = 2)
	MaxRetries int `json:"max_retries,omitempty"`
	// Seq: the calls are made one after the other by ONE caller thread (call k+1 starts when call k has returned), so
	// that answers for an earlier, finished invocation arrive while a later one is pending on the same engine
	Seq bool `json:"seq,omitempty"`
}

func (p params) sendErrAt() int {
	if p.SendErr {
		return 1
	}
	return p.SendErrAt
}

type payload struct{ v int32 }

func (p payload) Encode(b *bin.Buffer) error { b.PutInt32(p.v); return nil }

// output logs the write interval; the yield inside makes "concurrently with" observable.
type output struct {
	o  *sx.Obs
	id int
}

func (w output) Decode(b *bin.Buffer) error {
	v, err := b.Int32()
	if err != nil {
		return err
	}
	w.o.Log("wbegin %d val=%d", w.id, v)
	vsched.Point("decode-mid")
	w.o.Log("wend %d val=%d", w.id, v)
	return nil
}

type rpcErr struct{ id int }

func (e rpcErr) Error() string { return fmt.Sprintf("RPC_ERROR_FOR_%d", e.id) }

// parseEnv splits "op:id@k".
func parseEnv(e string) (op string, id, k int) {
	k = 1
	if i := strings.Index(e, "@"); i >= 0 {
		if _, err := fmt.Sscanf(e[i+1:], "%d", &k); err != nil {
			panic("bad env " + e)
		}
		e = e[:i]
	}
	if n, _ := fmt.Sscanf(strings.ReplaceAll(e, ":", " "), "%s %d", &op, &id); n < 1 {
		panic("bad env " + e)
	}
	return op, id, k
}

func body(p params, o *sx.Obs) {
	nsent := map[int]int{} // transmissions per message id
	maxRetries := p.MaxRetries
	if maxRetries == 0 {
		maxRetries = 2
	}
	eng := rpc.New(func(ctx context.Context, msgID int64, seqNo int32, in bin.Encoder) error {
		o.Log("send %d", msgID)
		nsent[int(msgID)]++
		if msgID == 1 && nsent[1] == p.sendErrAt() {
			return errors.New("write: broken pipe")
		}
		return nil
	}, rpc.Options{Clock: sx.Clock{}, RetryInterval: time.Second, MaxRetries: maxRetries, DropHandler: func(req rpc.Request) error {
		o.Log("drop %d", req.MsgID)
		return nil
	}})
	// the "server" talks about a request only after it received it; ids nobody sends may be mentioned at any time
	awaitSend := func(id, k int) {
		vsched.Cond("await-send", func() bool { return id > p.Calls || nsent[id] >= k })
	}
	var g sx.Group
	cancels := map[int]context.CancelFunc{}
	ctxs := map[int]context.Context{}
	for id := 1; id <= p.Calls; id++ {
		ctxs[id], cancels[id] = vctx.WithCancel(vctx.Background())
	}
	do := func(id int) {
		err := eng.Do(ctxs[id], rpc.Request{MsgID: int64(id), SeqNo: int32(2*id - 1), Input: payload{int32(id)}, Output: output{o, id}})
		kind := "nil"
		var re rpcErr
		switch {
		case err == nil:
		case errors.As(err, &re):
			kind = fmt.Sprintf("rpcerr%d", re.id)
		default:
			kind = "other"
		}
		o.Log("ret %d %s", id, kind)
	}
	if p.Seq {
		g.Go("calls", func() {
			for id := 1; id <= p.Calls; id++ {
				do(id)
			}
		})
	} else {
		for id := 1; id <= p.Calls; id++ {
			id := id
			g.Go(fmt.Sprintf("call%d", id), func() { do(id) })
		}
	}
	for i, e := range p.Env {
		e := e
		op, id, k := parseEnv(e)
		name := fmt.Sprintf("env%d-%s", i, e)
		switch op {
		case "ack":
			g.Go(name, func() { awaitSend(id, k); o.Log("deliver %s", e); eng.NotifyAcks([]int64{int64(id)}) })
		case "result":
			g.Go(name, func() {
				awaitSend(id, k)
				o.Log("deliver %s", e)
				var b bin.Buffer
				b.PutInt32(int32(100 + id)) // the result addressed to id carries 100+id
				_ = eng.NotifyResult(int64(id), &b)
			})
		case "error":
			g.Go(name, func() { awaitSend(id, k); o.Log("deliver %s", e); eng.NotifyError(int64(id), rpcErr{id}) })
		case "cancel":
			g.Go(name, func() { cancels[id]() })
		case "close":
			g.Go(name, func() { eng.ForceClose() })
		default:
			panic("bad env " + e)
		}
	}
	g.Wait()
}

func check(p params, o *sx.Obs, x *vsched.Sched) kit.Result {

	if x.StepLimit {
		return kit.Result{Outcome: "step-limit", Trivial: true}
	}
	for id := 1; id <= p.Calls; id++ {
		ret := -1
		retKind := ""
		writes := 0
		open := false
		for i, e := range o.Events {
			var eid, val int
			var kind string
			switch {
			case scan(e, "ret %d %s", &eid, &kind) && eid == id:
				if ret >= 0 {
					return kit.Bad("returned-twice", "call %d returned twice", id)
				}
				if open {
					return kit.Bad("write-concurrent-with-return", "call %d returned while its output was being written", id)
				}
				ret, retKind = i, kind
			case scan(e, "wbegin %d val=%d", &eid, &val) && eid == id:
				if ret >= 0 {
					return kit.Bad("write-after-return", "output of call %d written after Do returned (%s)", id, retKind)
				}
				if val != 100+id {
					return kit.Bad("foreign-result", "output of call %d received value %d addressed to another id", id, val)
				}
				writes++
				open = true
			case scan(e, "wend %d val=%d", &eid, &val) && eid == id:
				if ret >= 0 {
					return kit.Bad("write-after-return", "output of call %d still being written after Do returned (%s)", id, retKind)
				}
				open = false
			}
		}
		if ret < 0 {
			// The environment answers (ack/result/error) only after the request was sent, so a call that
			// got a result, an error, a cancel or a close must return; a call that was only acknowledged
			// legitimately waits forever.
			if mustReturn(p, o, id) {
				return kit.Bad("no-return", "call %d never returned although a result/error/cancel/close was delivered; blocked: %v", id, x.Blocked)
			}
			continue
		}
		if writes > 1 {
			return kit.Bad("written-twice", "output of call %d written %d times", id, writes)
		}
		switch {
		case retKind == "nil":
			if writes != 1 {
				return kit.Bad("success-without-result", "call %d returned nil without a decoded result", id)
			}
		case strings.HasPrefix(retKind, "rpcerr"):
			if retKind != fmt.Sprintf("rpcerr%d", id) {
				return kit.Bad("foreign-error", "call %d returned %s", id, retKind)
			}
		}
	}
	return kit.OKo(o.String())
}

func mustReturn(p params, o *sx.Obs, id int) bool {
	for _, e := range p.Env {
		op, eid, k := parseEnv(e)
		switch {
		case op == "close":
			return true
		case eid != id:
		case op == "cancel":
			return true
		case op == "result" || op == "error":
			// an answer to a later transmission obliges only if that transmission happened (it was then delivered)
			if k == 1 || o.Has("deliver "+e) {
				return true
			}
		}
	}
	return false
}

func scan(s, format string, a ...any) bool {
	n, err := fmt.Sscanf(s, format, a...)
	return err == nil && n == len(a)
}

func scenarios() []params {
	sc := func(calls int, env ...string) params { return params{Calls: calls, Env: env} }
	withErr := func(p params) params { p.SendErr = true; return p }
	return []params{
		sc(1, "ack:1", "result:1", "cancel:1"),
		sc(1, "result:1", "result:1", "cancel:1"),
		sc(1, "ack:1", "error:1", "result:1"),
		sc(1, "result:1", "close"),
		sc(1, "ack:1", "cancel:1", "close"),
		sc(1, "result:2", "cancel:1"),
		sc(1, "error:1", "cancel:1", "result:1"),
		sc(2, "result:2", "result:1"),
		sc(2, "result:1", "result:3", "cancel:2"),
		sc(2, "ack:1", "result:1", "close"),
		sc(2, "error:2", "result:1", "cancel:1"),
		withErr(sc(1, "result:1")),
		withErr(sc(1, "result:1", "ack:1")),
		withErr(sc(1, "error:1", "result:1")),
		// an error for an id nobody waits for
		sc(1, "error:2", "result:1"),
		// the invocation ends on the retry path (first copy lost, the server answers the re-sent one): retry limit reached /
		// the re-send transmits and reports a write error, while the answer to that copy is on its way
		{Calls: 1, Env: []string{"result:1@2"}, MaxRetries: 1},
		{Calls: 1, Env: []string{"error:1@2", "result:1@2"}, MaxRetries: 1},
		{Calls: 1, Env: []string{"result:1@2"}, SendErrAt: 2},
		// history on one engine: a second invocation by the same caller while a duplicate / late answer for the first, finished
		// (answered or cancelled) one is still being delivered
		// (the concurrent 2-call scenarios above already contain "call 2 starts after call 1 returned" as schedules; this one adds the
		// duplicate answer for the finished call with the order of the calls forced)
		{Calls: 2, Seq: true, Env: []string{"result:1", "result:1", "result:2"}},
	}
}

func main() {
	kit.Main("C24", "model_checking", func(c *kit.Ctx) {
		scs := scenarios()
		bound := 2
		if c.Thorough() {
			bound = 3
		}
		mk := func(p params) sx.Scenario[params] {
			return sx.Scenario[params]{Name: "rpc", Params: p, MaxSteps: 4000, Body: body, Check: check}
		}
		if c.Replaying() {
			sx.Explore(c, mk(scs[0]), 0, 0, 1)
			return
		}
		c.Rule("real rpc.Engine (instrumented copy of /repo/rpc), 1-2 Do calls (concurrent, or one after the other by the same caller on the same engine) plus environment threads {ack, result, duplicate result, "+
			"result/error for another id, rpc error, cancel, ForceClose, answers that react only to the re-sent copy}; transport write error after the bytes went out on the first or on the re-sent transmission; MaxRetries 1-2 "+
			"(invocation ending with the retry limit while the answer arrives); every interleaving at every sync operation with at most %d preemptions/early-timer "+
			"deviations for 1-call scenarios and one less for 2-call scenarios (stateless DFS, iterative context bounding); oracle on the event log: one return per call, no write for another id, at most one "+
			"write, no write overlapping or following the return, nil result only with a completed own write, rpc error only its own. distinct = distinct schedules.", bound)
		c.Assume("scheduling points at every channel/mutex/atomic/context/timer operation of the instrumented package; memory model below Go happens-before not explored")
		// work units: (scenario, subtree shard); the 2-call scenarios are split over several processes
		type unit struct{ sc, shard, shards int }
		var units []unit
		for i, p := range scs {
			n := 6
			if c.Thorough() || len(p.Env) >= 3 {
				n = 16 // the three-event environments have the largest schedule trees
			}
			for k := 0; k < n; k++ {
				units = append(units, unit{i, k, n})
			}
		}
		if c.Fork(len(units), 16) {
			return
		}
		u := units[c.Shard]
		b := bound
		if scs[u.sc].Calls > 1 {
			b = bound - 1 // two concurrent calls: one preemption less (space grows ~30x per preemption)
		}
		sx.Explore(c, mk(scs[u.sc]), b, u.shard, u.shards)
	})
}
