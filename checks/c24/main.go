// C24: each RPC call completes once with its own result and is then left alone.
// E-SCHED: real rpc.Engine (instrumented), virtual clock, all interleavings of callers with
// environment threads (ack, result, duplicate result, result for another id, rpc error, cancel,
// force close) up to a preemption bound.
package main

import (
	"context"
	"errors"
	"fmt"
	"strings"
	"time"

	"github.com/gotd/td/bin"
	"github.com/gotd/td/internal/verif/kit"
	"github.com/gotd/td/internal/verif/lib/sx"
	"github.com/gotd/td/internal/verif/shim/vctx"
	"github.com/gotd/td/internal/verif/shim/vsched"
	"github.com/gotd/td/rpc"
)

type params struct {
	Calls int      `json:"calls"` // message ids 1..Calls
	Env   []string `json:"env"`   // environment threads, e.g. "ack:1", "result:1", "result:2", "error:1", "cancel:1", "close"
	// SendErr: the transport reports a write error for call 1 although the bytes went out,
	// so the server can still answer the request whose Do is returning with that error
	SendErr bool `json:"send_err,omitempty"`
}

type payload struct{ v int32 }

func (p payload) Encode(b *bin.Buffer) error { b.PutInt32(p.v); return nil }

// output logs the write interval; the yield inside makes "concurrently with" observable.
type output struct {
	o  *sx.Obs
	id int
}

func (w output) Decode(b *bin.Buffer) error {
	v, err := b.Int32()
	if err != nil {
		return err
	}
	w.o.Log("wbegin %d val=%d", w.id, v)
	vsched.Point("decode-mid")
	w.o.Log("wend %d val=%d", w.id, v)
	return nil
}

type rpcErr struct{ id int }

func (e rpcErr) Error() string { return fmt.Sprintf("RPC_ERROR_FOR_%d", e.id) }

func body(p params, o *sx.Obs) {
	var sentFlag func(int) *sx.Flag
	eng := rpc.New(func(ctx context.Context, msgID int64, seqNo int32, in bin.Encoder) error {
		o.Log("send %d", msgID)
		sentFlag(int(msgID)).Set()
		if p.SendErr && msgID == 1 {
			return errors.New("write: broken pipe")
		}
		return nil
	}, rpc.Options{Clock: sx.Clock{}, RetryInterval: time.Second, MaxRetries: 2, DropHandler: func(req rpc.Request) error {
		o.Log("drop %d", req.MsgID)
		return nil
	}})
	var g sx.Group
	cancels := map[int]context.CancelFunc{}
	sent := map[int]*sx.Flag{}
	for id := 1; id <= p.Calls+1; id++ {
		sent[id] = &sx.Flag{}
	}
	sent[p.Calls+1].Set() // ids nobody sends: the "server" may talk about them at any time
	sentFlag = func(id int) *sx.Flag { return sent[id] }
	for id := 1; id <= p.Calls; id++ {
		id := id
		ctx, cancel := vctx.WithCancel(vctx.Background())
		cancels[id] = cancel
		g.Go(fmt.Sprintf("call%d", id), func() {
			err := eng.Do(ctx, rpc.Request{MsgID: int64(id), SeqNo: int32(2*id - 1), Input: payload{int32(id)}, Output: output{o, id}})
			kind := "nil"
			var re rpcErr
			switch {
			case err == nil:
			case errors.As(err, &re):
				kind = fmt.Sprintf("rpcerr%d", re.id)
			default:
				kind = "other"
			}
			o.Log("ret %d %s", id, kind)
		})
	}
	for i, e := range p.Env {
		var op string
		var id int
		if n, _ := fmt.Sscanf(strings.ReplaceAll(e, ":", " "), "%s %d", &op, &id); n < 1 {
			panic("bad env " + e)
		}
		name := fmt.Sprintf("env%d-%s", i, e)
		switch op {
		case "ack":
			g.Go(name, func() { sent[id].Wait("await-send"); eng.NotifyAcks([]int64{int64(id)}) })
		case "result":
			g.Go(name, func() {
				sent[id].Wait("await-send")
				var b bin.Buffer
				b.PutInt32(int32(100 + id)) // the result addressed to id carries 100+id
				_ = eng.NotifyResult(int64(id), &b)
			})
		case "error":
			g.Go(name, func() { sent[id].Wait("await-send"); eng.NotifyError(int64(id), rpcErr{id}) })
		case "cancel":
			g.Go(name, func() { cancels[id]() })
		case "close":
			g.Go(name, func() { eng.ForceClose() })
		default:
			panic("bad env " + e)
		}
	}
	g.Wait()
}

func check(p params, o *sx.Obs, x *vsched.Sched) kit.Result {

	if x.StepLimit {
		return kit.Result{Outcome: "step-limit", Trivial: true}
	}
	for id := 1; id <= p.Calls; id++ {
		ret := -1
		retKind := ""
		writes := 0
		open := false
		for i, e := range o.Events {
			var eid, val int
			var kind string
			switch {
			case scan(e, "ret %d %s", &eid, &kind) && eid == id:
				if ret >= 0 {
					return kit.Bad("returned-twice", "call %d returned twice", id)
				}
				if open {
					return kit.Bad("write-concurrent-with-return", "call %d returned while its output was being written", id)
				}
				ret, retKind = i, kind
			case scan(e, "wbegin %d val=%d", &eid, &val) && eid == id:
				if ret >= 0 {
					return kit.Bad("write-after-return", "output of call %d written after Do returned (%s)", id, retKind)
				}
				if val != 100+id {
					return kit.Bad("foreign-result", "output of call %d received value %d addressed to another id", id, val)
				}
				writes++
				open = true
			case scan(e, "wend %d val=%d", &eid, &val) && eid == id:
				if ret >= 0 {
					return kit.Bad("write-after-return", "output of call %d still being written after Do returned (%s)", id, retKind)
				}
				open = false
			}
		}
		if ret < 0 {
			// The environment answers (ack/result/error) only after the request was sent, so a call that
			// got a result, an error, a cancel or a close must return; a call that was only acknowledged
			// legitimately waits forever.
			if mustReturn(p, id) {
				return kit.Bad("no-return", "call %d never returned although a result/error/cancel/close was delivered; blocked: %v", id, x.Blocked)
			}
			continue
		}
		if writes > 1 {
			return kit.Bad("written-twice", "output of call %d written %d times", id, writes)
		}
		switch {
		case retKind == "nil":
			if writes != 1 {
				return kit.Bad("success-without-result", "call %d returned nil without a decoded result", id)
			}
		case strings.HasPrefix(retKind, "rpcerr"):
			if retKind != fmt.Sprintf("rpcerr%d", id) {
				return kit.Bad("foreign-error", "call %d returned %s", id, retKind)
			}
		}
	}
	return kit.OKo(o.String())
}

func mustReturn(p params, id int) bool {
	for _, e := range p.Env {
		if e == "close" || e == fmt.Sprintf("result:%d", id) || e == fmt.Sprintf("error:%d", id) || e == fmt.Sprintf("cancel:%d", id) {
			return true
		}
	}
	return false
}

func scan(s, format string, a ...any) bool {
	n, err := fmt.Sscanf(s, format, a...)
	return err == nil && n == len(a)
}

func scenarios() []params {
	return []params{
		{1, []string{"ack:1", "result:1", "cancel:1"}, false},
		{1, []string{"result:1", "result:1", "cancel:1"}, false},
		{1, []string{"ack:1", "error:1", "result:1"}, false},
		{1, []string{"result:1", "close"}, false},
		{1, []string{"ack:1", "cancel:1", "close"}, false},
		{1, []string{"result:2", "cancel:1"}, false},
		{1, []string{"error:1", "cancel:1", "result:1"}, false},
		{2, []string{"result:2", "result:1"}, false},
		{2, []string{"result:1", "result:3", "cancel:2"}, false},
		{2, []string{"ack:1", "result:1", "close"}, false},
		{2, []string{"error:2", "result:1", "cancel:1"}, false},
		{1, []string{"result:1"}, true},
		{1, []string{"result:1", "ack:1"}, true},
		{1, []string{"error:1", "result:1"}, true},
	}
}

func main() {
	kit.Main("C24", "model_checking", func(c *kit.Ctx) {
		scs := scenarios()
		bound := 2
		if c.Thorough() {
			bound = 3
		}
		mk := func(p params) sx.Scenario[params] {
			return sx.Scenario[params]{Name: "rpc", Params: p, MaxSteps: 4000, Body: body, Check: check}
		}
		if c.Replaying() {
			sx.Explore(c, mk(scs[0]), 0, 0, 1)
			return
		}
		c.Rule("real rpc.Engine (instrumented copy of /repo/rpc), 1-2 concurrent Do calls plus environment threads {ack, result, duplicate result, "+
			"result for another id, rpc error, cancel, ForceClose}; every interleaving at every sync operation with at most %d preemptions/early-timer "+
			"deviations for 1-call scenarios and one less for 2-call scenarios (stateless DFS, iterative context bounding); oracle on the event log: one return per call, no write for another id, at most one "+
			"write, no write overlapping or following the return, nil result only with a completed own write, rpc error only its own. distinct = distinct schedules.", bound)
		c.Assume("scheduling points at every channel/mutex/atomic/context/timer operation of the instrumented package; memory model below Go happens-before not explored")
		// work units: (scenario, subtree shard); the 2-call scenarios are split over several processes
		type unit struct{ sc, shard, shards int }
		var units []unit
		for i, p := range scs {
			n := 6
			if c.Thorough() {
				n = 16
			}
			_ = p
			for k := 0; k < n; k++ {
				units = append(units, unit{i, k, n})
			}
		}
		if c.Fork(len(units), 16) {
			return
		}
		u := units[c.Shard]
		b := bound
		if scs[u.sc].Calls > 1 {
			b = bound - 1 // two concurrent calls: one preemption less (space grows ~30x per preemption)
		}
		sx.Explore(c, mk(scs[u.sc]), b, u.shard, u.shards)
	})
}
