// C10: exchange.ClientExchange.Run never completes against a peer that lacks the trusted private
// key or that deviates from the protocol in any of the fields the client must verify.
//
// A scripted server (lib/refexchange/server.go, written from the specification) plays a finite
// library of adversarial strategies; every strategy deviates at exactly one point and must make
// Run return an error. The honest baselines must succeed (non-vacuity).
package main

import (
	"context"
	"errors"
	"fmt"
	"io"
	"math/big"
	"os"
	"runtime"
	"strings"
	"sync"
	"sync/atomic"
	"time"

	"github.com/gotd/td/bin"
	"github.com/gotd/td/crypto"
	"github.com/gotd/td/exchange"
	"github.com/gotd/td/internal/verif/kit"
	"github.com/gotd/td/internal/verif/lib/refexchange"
	"github.com/gotd/td/mt"
)

type wRun struct {
	// Strategy is a name from the library below; Arg its parameter (bit index, value name).
	Strategy string `json:"strategy"`
	Arg      string `json:"arg,omitempty"`
	Seed     int    `json:"seed"`
	Temp     bool   `json:"temporary_mode,omitempty"`
	// After "honest": an honest exchange on the same group (g = 4) is completed in this process immediately before the
	// strategy runs, so that anything the library remembers between exchanges (verified primes, parsed keys) is populated
	After string `json:"after,omitempty"`
}

var (
	trusted = refexchange.TrustedKey()
	rogue   = refexchange.RogueKey()

	trustedFP = crypto.RSAFingerprint(&trusted.PublicKey)
	rogueFP   = crypto.RSAFingerprint(&rogue.PublicKey)

	smallPQ = func() uint64 {
		// product of the largest prime below 2^24 and the smallest above 2^24+1000 (cheap proof of work)
		p, q := uint64(1<<24-1), uint64(1<<24+1001)
		for !new(big.Int).SetUint64(p).ProbablyPrime(0) {
			p -= 2
		}
		for !new(big.Int).SetUint64(q).ProbablyPrime(0) {
			q += 2
		}
		return p * q
	}()
)

const baseUnix = 1700000000

func flipBit(b []byte, bit int) {
	b[(bit/8)%len(b)] ^= 1 << (bit % 8)
}

func atoi(s string) int {
	n := 0
	fmt.Sscanf(s, "%d", &n)
	return n
}

func pow2(n uint) *big.Int { return new(big.Int).Lsh(big.NewInt(1), n) }

// gaValue names the substituted g_a values.
func gaValue(name string, p *big.Int) *big.Int {
	m := pow2(1984)
	x := new(big.Int)
	switch name {
	case "0":
	case "1":
		x.SetInt64(1)
	case "2":
		x.SetInt64(2)
	case "p-1":
		x.Sub(p, big.NewInt(1))
	case "p":
		x.Set(p)
	case "p+1":
		x.Add(p, big.NewInt(1))
	case "p+2^1985":
		x.Add(p, pow2(1985))
	case "2^1984":
		x.Set(m)
	case "2^1984-1":
		x.Sub(m, big.NewInt(1))
	case "p-2^1984":
		x.Sub(p, m)
	case "p-2^1984+1":
		x.Sub(p, m).Add(x, big.NewInt(1))
	case "2^2048-1":
		x.Sub(pow2(2048), big.NewInt(1))
	default:
		return nil
	}
	return x
}

// expect is what the statement demands of a run.
type expect int

const (
	mustRefuse   expect = iota // the peer deviates: Run must return an error
	mustComplete               // honest baseline
	either                     // every number the peer sends is good, only its wire encoding is unusual (leading zero bytes): the statement is silent
)

// wireVariant builds a wire encoding from the minimal big-endian encoding v of a good number.
// name: "pad0:<n>" n leading zero bytes (same number); "prefix:<hex>" / "suffix:<hex>" bytes put in front / appended;
// "infix:<hex>" hex in front and behind; "drop-first" / "drop-last" one byte removed; "double" v||v.
func wireVariant(name string, v []byte) []byte {
	cat := func(parts ...[]byte) []byte {
		var r []byte
		for _, p := range parts {
			r = append(r, p...)
		}
		return r
	}
	op, arg, _ := strings.Cut(name, ":")
	switch op {
	case "pad0":
		n := atoi(arg)
		if n < 1 || n > 4096 {
			return nil
		}
		return cat(make([]byte, n), v)
	case "prefix", "suffix", "infix":
		x := kit.UnHex(arg)
		if len(x) == 0 {
			return nil
		}
		switch op {
		case "prefix":
			return cat(x, v)
		case "suffix":
			return cat(v, x)
		}
		return cat(x, v, x)
	case "drop-first":
		return cat(v[1:])
	case "drop-last":
		return cat(v[:len(v)-1])
	case "double":
		return cat(v, v)
	}
	return nil
}

// configure applies the strategy to an honest server. ok=false: unknown strategy/arg.
// honest=true: the strategy is a baseline that must succeed.
func configure(s *refexchange.ScriptedServer, w wRun) (want expect, ok bool) {
	arg := w.Arg
	switch w.Strategy {
	// ---- honest baselines -------------------------------------------------------------------
	case "honest":
		// arg = "<group>/<g>" (any embedded safe prime with a residue g) or "" = telegram/3;
		// suffix "+realpq" uses the pq of the in-tree test server.
		if strings.HasSuffix(arg, "+realpq") {
			arg = strings.TrimSuffix(arg, "+realpq")
			s.PQ = 0x17ED48941A08F981
		}
		if arg != "" {
			i := strings.IndexByte(arg, '/')
			if i < 0 {
				return mustRefuse, false
			}
			p := refexchange.GroupByName(arg[:i])
			g := atoi(arg[i+1:])
			if p == nil || g < 2 || g > 7 || !refexchange.EulerQR(int64(g), p) {
				return mustRefuse, false
			}
			s.DhPrime, s.G = p, g
		}
		return mustComplete, true
	case "honest.extra-fingerprints":
		// the trusted fingerprint among unknown ones
		s.Fingerprints = []int64{rogueFP, 12345, trustedFP, -1}
		return mustComplete, true

	// ---- peer without the trusted private key -------------------------------------------------
	case "rogue.unknown-fingerprint":
		s.Key, s.Fingerprints = rogue, []int64{rogueFP}
	case "rogue.spoofed-fingerprint":
		// advertises the trusted fingerprint but cannot decrypt what the client sends
		s.Key, s.Fingerprints = rogue, []int64{trustedFP}
	case "rogue.both-fingerprints":
		s.Key, s.Fingerprints = rogue, []int64{rogueFP, trustedFP}
	case "m1.no-fingerprints":
		s.Fingerprints = nil
	case "m1.fingerprint.flip":
		bit := atoi(arg)
		s.Fingerprints = []int64{trustedFP ^ int64(uint64(1)<<(uint(bit)%64))}

	// ---- message 1: resPQ -----------------------------------------------------------------------
	case "m1.nonce.flip":
		s.MutResPQ = func(m *mt.ResPQ) { flipBit(m.Nonce[:], atoi(arg)) }
	case "m1.wrong-type":
		s.ReplaceM1 = func(h *mt.ResPQ) bin.Encoder {
			return &mt.DhGenOk{Nonce: h.Nonce, ServerNonce: h.ServerNonce}
		}

	// ---- message 2: server_DH_params_ok ---------------------------------------------------------
	case "m2.nonce.flip":
		s.MutDHOk = func(m *mt.ServerDHParamsOk) { flipBit(m.Nonce[:], atoi(arg)) }
	case "m2.server_nonce.flip":
		s.MutDHOk = func(m *mt.ServerDHParamsOk) { flipBit(m.ServerNonce[:], atoi(arg)) }
	case "m2.inner.nonce.flip":
		s.MutInner = func(m *mt.ServerDHInnerData, _ *big.Int) { flipBit(m.Nonce[:], atoi(arg)) }
	case "m2.inner.server_nonce.flip":
		s.MutInner = func(m *mt.ServerDHInnerData, _ *big.Int) { flipBit(m.ServerNonce[:], atoi(arg)) }
	case "m2.answer.bitflip":
		s.MutAnswer = func(a []byte) []byte { flipBit(a, atoi(arg)); return a }
	case "m2.answer.truncate-last-block":
		s.MutAnswer = func(a []byte) []byte { return a[:len(a)-16] }
	case "m2.answer.drop-first-block":
		s.MutAnswer = func(a []byte) []byte { return a[16:] }
	case "m2.answer.append-block":
		s.MutAnswer = func(a []byte) []byte { return append(a, kit.Pattern("stream:c10:blk", 16)...) }
	case "m2.answer.unaligned":
		s.MutAnswer = func(a []byte) []byte { return a[:len(a)-4] }
	case "m2.answer.empty":
		s.MutAnswer = func(a []byte) []byte { return nil }
	case "m2.answer.garbage":
		s.MutAnswer = func(a []byte) []byte { return kit.Pattern("stream:c10:garbage"+arg, len(a)) }
	case "m2.answer.swap-blocks":
		s.MutAnswer = func(a []byte) []byte {
			i := atoi(arg) * 16
			var t [16]byte
			copy(t[:], a[i:i+16])
			copy(a[i:i+16], a[i+16:i+32])
			copy(a[i+16:i+32], t[:])
			return a
		}
	case "m2.answer.wrong-key":
		// encrypted under a key derived from other nonces (what a peer that never saw new_nonce can do)
		s.MutAESKey = func(k, iv []byte) ([]byte, []byte) {
			return kit.Pattern("stream:c10:k"+arg, 32), kit.Pattern("stream:c10:iv"+arg, 32)
		}
	case "m2.answer.hash.flip":
		// SHA1 prefix of answer_with_hash altered before encryption
		s.MutPlain = func(p []byte) []byte { flipBit(p[:20], atoi(arg)); return p }
	case "m2.answer.data.flip":
		// a data byte altered after the hash was computed (arg = bit index into the data)
		s.MutPlain = func(p []byte) []byte { flipBit(p[20:len(p)-16], atoi(arg)); return p }
	case "m2.fail":
		s.ReplaceM2 = func(h *mt.ServerDHParamsOk) bin.Encoder {
			return &mt.ServerDHParamsFail{Nonce: h.Nonce, ServerNonce: h.ServerNonce}
		}
	case "m2.wrong-type":
		s.ReplaceM2 = func(h *mt.ServerDHParamsOk) bin.Encoder {
			return &mt.DhGenOk{Nonce: h.Nonce, ServerNonce: h.ServerNonce}
		}
	case "m2.dh_prime":
		// substituted modulus (g_a = g^a mod it); arg = refexchange.Candidate construction, g = 4
		// so that the residue rule cannot be what rejects it
		p, safe := refexchange.Candidate(arg)
		if p == nil || safe || p.Sign() <= 0 {
			return mustRefuse, false
		}
		s.DhPrime, s.G = p, 4
	case "m2.dh_prime.wire":
		// the good prime P inside a longer / shorter / padded dh_prime field: arg = "<g>/<wireVariant>". The server really
		// works modulo the number the field denotes. A client that recognises P by part of the bytes would go on.
		gs, variant, _ := strings.Cut(arg, "/")
		g := atoi(gs)
		raw := wireVariant(variant, s.DhPrime.Bytes())
		if raw == nil || g < 2 || g > 7 {
			return mustRefuse, false
		}
		val := new(big.Int).SetBytes(raw)
		if val.Sign() == 0 {
			return mustRefuse, false
		}
		s.DhPrime, s.G = val, g
		s.MutInner = func(m *mt.ServerDHInnerData, _ *big.Int) { m.DhPrime = raw }
		if refexchange.IsSafePrime2048(val, 24) && refexchange.EulerQR(int64(g), val) {
			return either, true
		}
	case "m2.g_a.wire":
		// the honest g_a in another wire encoding: leading zero bytes (same number), or extra bytes in front / behind
		// (another number: out of range, or in range with an exponent the server does not have)
		variant := arg
		if wireVariant(variant, []byte{1, 2}) == nil {
			return mustRefuse, false
		}
		s.MutInner = func(m *mt.ServerDHInnerData, _ *big.Int) { m.GA = wireVariant(variant, m.GA) }
		if strings.HasPrefix(variant, "pad0:") {
			return either, true
		}
	case "m2.g.consistent":
		// the peer uses the bad generator itself throughout (g_a = bad^a, key from the client's g_b): nothing but the
		// client's own check of (g, dh_prime) stands between it and a completed exchange. arg = "<group>/<bad g>"
		i := strings.IndexByte(arg, '/')
		if i < 0 {
			return mustRefuse, false
		}
		p := refexchange.GroupByName(arg[:i])
		bad := atoi(arg[i+1:])
		if p == nil || bad < 2 || (bad <= 7 && refexchange.EulerQR(int64(bad), p)) {
			return mustRefuse, false
		}
		s.DhPrime, s.G = p, bad
	case "m2.g":
		// only g differs from the honest run: arg = "<group>/<bad g>"
		i := strings.IndexByte(arg, '/')
		if i < 0 {
			return mustRefuse, false
		}
		p := refexchange.GroupByName(arg[:i])
		bad := atoi(arg[i+1:])
		if p == nil || (bad >= 2 && bad <= 7 && refexchange.EulerQR(int64(bad), p)) {
			return mustRefuse, false
		}
		s.DhPrime, s.G = p, 4
		s.MutInner = func(m *mt.ServerDHInnerData, _ *big.Int) { m.G = bad }
	case "m2.g_a":
		p := s.DhPrime
		v := gaValue(arg, p)
		if v == nil {
			return mustRefuse, false
		}
		s.MutInner = func(m *mt.ServerDHInnerData, _ *big.Int) { m.GA = v.Bytes() }
	case "m2.g_a.forced-key":
		// g_a from a trivial subgroup, and a server that then knows the client's key without any
		// secret: 0 -> key 0, 1 -> key 1, p-1 -> key 1 (client's b even) or p-1 (b odd).
		p := s.DhPrime
		var ga, key *big.Int
		switch arg {
		case "0":
			ga, key = big.NewInt(0), big.NewInt(0)
		case "1":
			ga, key = big.NewInt(1), big.NewInt(1)
		case "p-1:even":
			ga, key = new(big.Int).Sub(p, big.NewInt(1)), big.NewInt(1)
		case "p-1:odd":
			ga = new(big.Int).Sub(p, big.NewInt(1))
			key = ga
		default:
			return mustRefuse, false
		}
		s.MutInner = func(m *mt.ServerDHInnerData, _ *big.Int) { m.GA = ga.Bytes() }
		s.MutGenOk = func(m *mt.DhGenOk, nn bin.Int256, _ []byte) {
			m.NewNonceHash1 = refexchange.NewNonceHash(nn, 1, refexchange.Pad256(key))
		}
	case "m2.g_a.foreign":
		// an in-range g_a whose exponent the server does not use afterwards
		s.MutInner = func(m *mt.ServerDHInnerData, a *big.Int) {
			other := new(big.Int).Add(a, big.NewInt(int64(1+atoi(arg))))
			m.GA = new(big.Int).Exp(big.NewInt(int64(m.G)), other, s.DhPrime).Bytes()
		}

	// ---- message 3: dh_gen_ok -------------------------------------------------------------------
	case "m3.nonce.flip":
		s.MutGenOk = func(m *mt.DhGenOk, _ bin.Int256, _ []byte) { flipBit(m.Nonce[:], atoi(arg)) }
	case "m3.server_nonce.flip":
		s.MutGenOk = func(m *mt.DhGenOk, _ bin.Int256, _ []byte) { flipBit(m.ServerNonce[:], atoi(arg)) }
	case "m3.hash.flip":
		s.MutGenOk = func(m *mt.DhGenOk, _ bin.Int256, _ []byte) { flipBit(m.NewNonceHash1[:], atoi(arg)) }
	case "m3.hash.zero":
		s.MutGenOk = func(m *mt.DhGenOk, _ bin.Int256, _ []byte) { m.NewNonceHash1 = bin.Int128{} }
	case "m3.hash.number":
		// new_nonce_hash2 / new_nonce_hash3 in place of new_nonce_hash1
		s.MutGenOk = func(m *mt.DhGenOk, nn bin.Int256, key []byte) {
			m.NewNonceHash1 = refexchange.NewNonceHash(nn, byte(atoi(arg)), key)
		}
	case "m3.hash.other-key":
		// hash of a key the client does not share (auth key with one bit flipped)
		s.MutGenOk = func(m *mt.DhGenOk, nn bin.Int256, key []byte) {
			k := append([]byte{}, key...)
			flipBit(k, atoi(arg))
			m.NewNonceHash1 = refexchange.NewNonceHash(nn, 1, k)
		}
	case "m3.hash.other-new_nonce":
		s.MutGenOk = func(m *mt.DhGenOk, nn bin.Int256, key []byte) {
			flipBit(nn[:], atoi(arg))
			m.NewNonceHash1 = refexchange.NewNonceHash(nn, 1, key)
		}
	case "m3.retry":
		s.ReplaceM3 = func(h *mt.DhGenOk, nn bin.Int256, key []byte) bin.Encoder {
			return &mt.DhGenRetry{Nonce: h.Nonce, ServerNonce: h.ServerNonce, NewNonceHash2: refexchange.NewNonceHash(nn, 2, key)}
		}
	case "m3.fail":
		s.ReplaceM3 = func(h *mt.DhGenOk, nn bin.Int256, key []byte) bin.Encoder {
			return &mt.DhGenFail{Nonce: h.Nonce, ServerNonce: h.ServerNonce, NewNonceHash3: refexchange.NewNonceHash(nn, 3, key)}
		}
	case "m3.wrong-type":
		s.ReplaceM3 = func(h *mt.DhGenOk, _ bin.Int256, _ []byte) bin.Encoder {
			return &mt.ResPQ{Nonce: h.Nonce, ServerNonce: h.ServerNonce}
		}
	case "replay":
		// handled by the caller (needs a recorded session); arg = message number 1..3
		if n := atoi(arg); n < 1 || n > 3 {
			return mustRefuse, false
		}
	default:
		return mustRefuse, false
	}
	return mustRefuse, true
}

func newServer(seed int) *refexchange.ScriptedServer {
	return &refexchange.ScriptedServer{
		Key:          trusted,
		Fingerprints: []int64{trustedFP},
		Rand:         kit.NewStream(uint64(seed)*2 + 0x5e12),
		UnixTime:     baseUnix,
		PQ:           smallPQ,
		DhPrime:      refexchange.GroupByName("telegram"),
		G:            3,
	}
}

type runResult struct {
	res      exchange.ClientExchangeResult
	err      error
	timedOut bool
	server   refexchange.ServerOutcome
}

// session runs one client against the given scripted server over a fresh in-memory pipe.
func session(srv *refexchange.ScriptedServer, clientSeed uint64, temp bool) runResult {
	cc, sc := refexchange.Pipe()
	ctx, cancel := context.WithTimeout(context.Background(), 120*time.Second)
	defer cancel()
	var out refexchange.ServerOutcome
	var wg sync.WaitGroup
	wg.Add(1)
	serverBroke := false
	go func() {
		defer wg.Done()
		out = srv.Run(ctx, sc)
		if out.Err != nil && !errors.Is(out.Err, io.EOF) && !errors.Is(out.Err, io.ErrClosedPipe) {
			// the scripted server itself could not go on (not: the client hung up): harness trouble
			serverBroke = true
			_ = sc.Close()
		}
	}()
	ex := exchange.NewExchanger(cc, 2).
		WithClock(&refexchange.StepClock{Base: time.Unix(baseUnix, 0)}).
		WithRand(kit.NewStream(clientSeed)).
		WithTimeout(100 * time.Second)
	if temp {
		ex = ex.WithTempMode(3600)
	}
	res, err := ex.Client([]exchange.PublicKey{{RSA: &trusted.PublicKey}}).Run(ctx)
	timedOut := ctx.Err() != nil || errors.Is(err, context.DeadlineExceeded)
	_ = cc.Close() // releases a server still waiting for the client's next message
	wg.Wait()
	return runResult{res, err, timedOut || serverBroke, out}
}

var infraErrors atomic.Int64

func infra(format string, a ...any) kit.Result {
	infraErrors.Add(1)
	fmt.Fprintf(os.Stderr, "C10: INFRASTRUCTURE: "+format+"\n", a...)
	return kit.Result{Trivial: true, Outcome: "infrastructure-error"}
}

// errLabel maps the client's error to a short stable label (outcome statistics only).
func errLabel(err error) string {
	s := err.Error()
	for _, k := range []string{
		"ResPQ nonce mismatch", "key fingerprint not found", "ServerDHParamsOk nonce mismatch",
		"ServerDHParamsOk server nonce mismatch", "exchange answer decrypt", "ServerDHInnerData nonce mismatch",
		"ServerDHInnerData server nonce mismatch", "check DH params", "invalid params", "DhGenOk nonce mismatch",
		"DhGenOk server nonce mismatch", "hash mismatch", "retry required", "dh_hen_fail", "server_DH_params_fail",
		"read ResPQ response", "unexpected id", "decode",
	} {
		if strings.Contains(s, k) {
			return strings.ReplaceAll(k, " ", "-")
		}
	}
	return "other-error"
}

func evalRun(w wRun) kit.Result {
	srv := newServer(w.Seed)
	want, ok := configure(srv, w)
	honest := want == mustComplete
	if !ok {
		fmt.Fprintf(os.Stderr, "C10: unknown strategy/argument %s(%s)\n", w.Strategy, w.Arg)
		return kit.Result{Trivial: true, Outcome: "unknown-strategy"}
	}
	clientSeed := uint64(w.Seed)*2 + 0xc11e
	if w.After == "honest" {
		group := "telegram"
		if i := strings.IndexByte(w.Arg, '/'); i > 0 && refexchange.GroupByName(w.Arg[:i]) != nil {
			group = w.Arg[:i]
		}
		pre := newServer(w.Seed + 2000003)
		if _, ok := configure(pre, wRun{Strategy: "honest", Arg: group + "/4", Seed: w.Seed}); !ok {
			return infra("prelude honest(%s/4) not configurable", group)
		}
		if first := session(pre, clientSeed+0x999, w.Temp); first.err != nil {
			return infra("prelude honest(%s/4) before %s(%s) failed: %v", group, w.Strategy, w.Arg, first.err)
		}
	}
	if w.Strategy == "replay" {
		// record an honest session of another client (different randomness => different nonces) ...
		rec := newServer(w.Seed + 1000003)
		first := session(rec, clientSeed+0x777, w.Temp)
		if first.err != nil || len(rec.SentBodies) != 3 {
			return infra("recording session for replay failed: %v", first.err)
		}
		n := atoi(w.Arg)
		body := refexchange.RawMessage(rec.SentBodies[n-1])
		// ... and replay its message n to the new client
		switch n {
		case 1:
			srv.ReplaceM1 = func(*mt.ResPQ) bin.Encoder { return body }
		case 2:
			srv.ReplaceM2 = func(*mt.ServerDHParamsOk) bin.Encoder { return body }
		case 3:
			srv.ReplaceM3 = func(*mt.DhGenOk, bin.Int256, []byte) bin.Encoder { return body }
		}
	}
	r := session(srv, clientSeed, w.Temp)
	if r.timedOut {
		return infra("strategy %s(%s) seed %d: safety timeout or scripted server failure (client err=%v, server step=%d err=%v)", w.Strategy, w.Arg, w.Seed, r.err, r.server.Step, r.server.Err)
	}
	if honest {
		if r.err != nil {
			return infra("honest baseline %s(%s) seed %d failed: %v (server step=%d err=%v)", w.Strategy, w.Arg, w.Seed, r.err, r.server.Step, r.server.Err)
		}
		if !r.server.ClientAnswerOK || string(r.server.AuthKey) != string(r.res.AuthKey.Value[:]) {
			return infra("honest baseline %s(%s) seed %d: scripted server and client disagree on the key", w.Strategy, w.Arg, w.Seed)
		}
		return kit.OKo("honest:completed")
	}
	if want == either {
		if r.err == nil {
			return kit.Result{Trivial: true, Outcome: "encoding-variant:completed"}
		}
		return kit.Result{Trivial: true, Outcome: "encoding-variant:refused:" + errLabel(r.err)}
	}
	if r.err == nil {
		return kit.Bad("completed:"+w.Strategy,
			"ClientExchange.Run completed (auth key id %x) against strategy %s(%s), seed %d, temporary=%v; server sent %d messages, could read the client's inner data: %v",
			r.res.AuthKey.ID, w.Strategy, w.Arg, w.Seed, w.Temp, r.server.Step, r.server.DecryptedInner)
	}
	if r.res.AuthKey.Value != (crypto.Key{}) {
		return kit.Bad("key-with-error:"+w.Strategy, "Run returned an error (%v) together with a non-zero auth key", r.err)
	}
	return kit.OKo("refused:" + errLabel(r.err))
}

func bits(quick []int, n int, thorough bool) []int {
	if !thorough {
		return quick
	}
	r := make([]int, n)
	for i := range r {
		r[i] = i
	}
	return r
}

func main() {
	kit.Main("C10", "fault_enumeration", func(c *kit.Ctx) {
		run := kit.NewFamily(c, "strategy", evalRun)
		if c.Replaying() {
			return
		}
		if bad := refexchange.VerifyGroups() + refexchange.VerifyCandidates(); bad != "" {
			fmt.Fprintln(os.Stderr, "C10: embedded group/candidate does not have its stated form:", bad)
			os.Exit(2)
		}
		th := c.Thorough()
		seeds := 1
		if th {
			seeds = 4
		}
		nonceBits := bits([]int{0, 7, 8, 63, 64, 127}, 128, th)

		type sa struct{ s, a string }
		var lib []sa
		add := func(s string, args ...string) {
			if len(args) == 0 {
				args = []string{""}
			}
			for _, a := range args {
				lib = append(lib, sa{s, a})
			}
		}
		itoa := func(xs []int) []string {
			r := make([]string, len(xs))
			for i, x := range xs {
				r[i] = fmt.Sprint(x)
			}
			return r
		}
		// baselines
		add("honest", "", "+realpq", "telegram/4", "rfc3526-14/2", "gen2/6", "gen3/5", "gen1/7", "gen6/3")
		add("honest.extra-fingerprints")
		// no private key
		add("rogue.unknown-fingerprint")
		add("rogue.spoofed-fingerprint")
		add("rogue.both-fingerprints")
		add("m1.no-fingerprints")
		add("m1.fingerprint.flip", itoa(bits([]int{0, 31, 63}, 64, th))...)
		// message 1
		add("m1.nonce.flip", itoa(nonceBits)...)
		add("m1.wrong-type")
		// message 2
		add("m2.nonce.flip", itoa(nonceBits)...)
		add("m2.server_nonce.flip", itoa(nonceBits)...)
		add("m2.inner.nonce.flip", itoa(nonceBits)...)
		add("m2.inner.server_nonce.flip", itoa(nonceBits)...)
		// encrypted_answer of the honest inner data: 20 + 564 bytes -> 592 bytes = 37 blocks
		const answerBlocks = 37
		var flips []int
		for b := 0; b < answerBlocks; b++ {
			flips = append(flips, b*128+(b*37)%128) // one bit in every block
		}
		if th {
			for i := 0; i < 128; i++ { // every bit of the first and of the last block
				flips = append(flips, i, (answerBlocks-1)*128+i)
			}
		}
		add("m2.answer.bitflip", itoa(flips)...)
		add("m2.answer.truncate-last-block")
		add("m2.answer.drop-first-block")
		add("m2.answer.append-block")
		add("m2.answer.unaligned")
		add("m2.answer.empty")
		add("m2.answer.garbage", "a", "b")
		add("m2.answer.swap-blocks", "0", "1", "17", "35")
		add("m2.answer.wrong-key", "a", "b")
		add("m2.answer.hash.flip", itoa(bits([]int{0, 80, 159}, 160, th))...)
		add("m2.answer.data.flip", "0", "32", "288", "352", "2400", "4447")
		add("m2.fail")
		add("m2.wrong-type")
		add("m2.dh_prime", "semiprime", "telegram:+2", "telegram:-2", "telegram:q", "telegram:2p+1", "prime-notsafe-a", "prime-notsafe-b",
			"sophie-composite-a", "sophie-composite-b", "oakley2", "oakley15", "2^2047:+1", "2^2048:-1", "23", "rfc3526-14:+2", "gen2:-2")
		// the good prime inside another wire encoding of dh_prime (g = 4: no residue condition; g = 3: the honest generator)
		wire := []string{"prefix:01", "prefix:02", "prefix:03", "prefix:ff", "prefix:0100", "prefix:0003", "prefix:" + kit.Hex(kit.Pattern("stream:c10:x", 4)),
			"prefix:" + kit.Hex(kit.Pattern("stream:c10:y", 256)), "double", "suffix:00", "suffix:01", "suffix:" + kit.Hex(kit.Pattern("stream:c10:z", 16)),
			"infix:01", "drop-first", "drop-last", "pad0:1", "pad0:4", "pad0:256"}
		for _, v := range wire {
			add("m2.dh_prime.wire", "4/"+v, "3/"+v)
		}
		add("m2.g_a.wire", "pad0:1", "pad0:4", "prefix:01", "prefix:ff00", "suffix:00", "suffix:01", "double", "drop-first", "drop-last")
		add("m2.g", "telegram/0", "telegram/1", "telegram/-1", "telegram/8", "telegram/9", "telegram/-3", "telegram/131075",
			"telegram/2", "telegram/6", "gen2/5", "gen2/7", "gen3/2", "gen3/6", "gen3/7", "gen1/2", "gen1/5", "gen1/6")
		add("m2.g.consistent", "telegram/2", "telegram/6", "telegram/8", "telegram/9", "gen2/5", "gen2/7", "gen3/2", "gen3/6", "gen3/7", "gen1/2", "gen1/5", "gen1/6")
		add("m2.g_a", "0", "1", "2", "p-1", "p", "p+1", "p+2^1985", "2^1984", "2^1984-1", "p-2^1984", "p-2^1984+1", "2^2048-1")
		add("m2.g_a.forced-key", "0", "1", "p-1:even", "p-1:odd")
		add("m2.g_a.foreign", "0", "1")
		// message 3
		add("m3.nonce.flip", itoa(nonceBits)...)
		add("m3.server_nonce.flip", itoa(nonceBits)...)
		add("m3.hash.flip", itoa(nonceBits)...)
		add("m3.hash.zero")
		add("m3.hash.number", "2", "3", "0")
		add("m3.hash.other-key", "0", "1000", "2047")
		add("m3.hash.other-new_nonce", "0", "255")
		add("m3.retry")
		add("m3.fail")
		add("m3.wrong-type")
		add("replay", "1", "2", "3")

		var cases []wRun
		for _, e := range lib {
			for s := 0; s < seeds; s++ {
				cases = append(cases, wRun{Strategy: e.s, Arg: e.a, Seed: s})
			}
		}
		// history: every substitution of the DH parameters again, directly after an honest exchange on the same group
		for _, e := range lib {
			if strings.HasPrefix(e.s, "m2.g") || strings.HasPrefix(e.s, "m2.dh_prime") {
				cases = append(cases, wRun{Strategy: e.s, Arg: e.a, Seed: 0, After: "honest"})
			}
		}
		// the key a client would derive modulo a longer dh_prime fits 2048 bits only in a fraction of the runs: more seeds
		if !th {
			for _, e := range lib {
				if e.s == "m2.dh_prime.wire" && strings.Contains(e.a, "/prefix:0") {
					for s := 1; s < 4; s++ {
						cases = append(cases, wRun{Strategy: e.s, Arg: e.a, Seed: s})
					}
				}
			}
		}
		// temporary mode: the baselines and one representative of every strategy
		seen := map[string]bool{}
		for _, e := range lib {
			if seen[e.s] && e.s != "honest" {
				continue
			}
			seen[e.s] = true
			cases = append(cases, wRun{Strategy: e.s, Arg: e.a, Seed: 100, Temp: true})
		}

		nStrat := map[string]bool{}
		for _, e := range lib {
			nStrat[e.s] = true
		}
		c.Set("strategies", int64(len(nStrat)))
		c.Set("strategy_instances", int64(len(lib)))
		c.Rule("One real exchange.ClientExchange.Run (trusting one RSA key, DC 2, deterministic random stream and clock) per "+
			"(strategy, argument, seed) against a scripted server that follows the specification except at the strategy's single deviation: "+
			"peer holding only its own RSA key (unknown / spoofed / mixed fingerprints, no fingerprints, fingerprint bit flips), client nonce bit "+
			"flips in resPQ, nonce and server_nonce bit flips in server_DH_params_ok (outer) and in the re-encrypted server_DH_inner_data, "+
			"encrypted_answer with one flipped bit in each of its 37 blocks (thorough: also every bit of the first and last block), truncated / "+
			"extended / unaligned / empty / garbage / block-swapped / wrong-key answers, altered SHA1 prefix or data after hashing, "+
			"server_DH_params_fail, wrong constructors, dh_prime in {semiprime, p+-2, (p-1)/2, 2p+1, primes with composite (p-1)/2, composite 2q+1, "+
			"1024/3072-bit safe primes, 2^2047+1, 2^2048-1, 23}, the good prime P in another wire form of the dh_prime field x g in {3,4} "+
			"(X||P for X in {01,02,03,ff,0100,0003, 4 and 256 stream bytes}, P||P, P||00, P||01, P||16 stream bytes, 01||P||01, P without its first / last byte: "+
			"the server works modulo the number denoted, 4 seeds for the short prefixes; 00-padded P with 1, 4, 256 zero bytes denotes P itself: either outcome accepted), "+
			"the honest g_a in another wire form (zero-padded: either outcome; bytes in front / behind / removed / doubled: must fail), g in {0,1,-1,8,9,2^32+3, every non-residue g of 2..7 on some embedded group}, "+
			"g_a in {0,1,2,p-1,p,p+1,p+2^1985,2^1984,2^1984-1,p-2^1984,p-2^1984+1,2^2048-1} an in-range g_a of a foreign exponent, g_a in {0,1,p-1} with a new_nonce_hash1 computed for the key this forces, "+
			"dh_gen_ok with nonce / server_nonce / new_nonce_hash1 bit flips, zero hash, hash number 2/3/0, hash of another key or new_nonce, "+
			"dh_gen_retry, dh_gen_fail, wrong constructor, and replay of message 1/2/3 recorded from another session. Bit positions: quick "+
			"{0,7,8,63,64,127}, thorough all 128. Seeds: %d per instance, plus one temporary-mode run per strategy. Oracle: Run returns an error "+
			"(and no key); the %d honest baselines (6 groups/generators, the in-tree pq, extra fingerprints) must complete with the server's key. "+
			"distinct = distinct (strategy, arg, seed, mode).", seeds, 9)
		c.Assume("scripted server written from core.telegram.org/mtproto/auth_key on crypto/sha1, crypto/sha256, math/big and lib/refcrypto AES-IGE, " +
			"TL encoding by the generated mt types; it is validated by the honest baselines; adversary limited to the listed library; a 120 s " +
			"safety timeout or a failing honest baseline is reported as an infrastructure error (exit 2), never as a verdict")

		workers := runtime.NumCPU()
		done := make([]bool, len(cases))
		kit.Parallel(len(cases), workers, func(i int) {
			if c.Expired() {
				return
			}
			run.Eval(cases[i])
			done[i] = true
		})
		n := 0
		for _, d := range done {
			if d {
				n++
			}
		}
		if n != len(cases) {
			c.NotExhaustive("time budget: %d of %d strategy runs evaluated", n, len(cases))
		}
		if infraErrors.Load() > 0 {
			fmt.Fprintf(os.Stderr, "C10: %d infrastructure errors (see above); no verdict\n", infraErrors.Load())
			os.Exit(2)
		}
	})
}
