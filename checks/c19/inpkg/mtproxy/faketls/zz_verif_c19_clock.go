//go:build verif

package faketls

import (
	"io"

	"github.com/gotd/td/clock"
)

// VerifNewFakeTLS is NewFakeTLS with an injected clock (the ClientHello carries a timestamp), so
// that check C19 is deterministic. It changes no behaviour.
func VerifNewFakeTLS(r io.Reader, c clock.Clock, conn io.ReadWriter) *FakeTLS {
	f := NewFakeTLS(r, conn)
	f.clock = c
	return f
}
