// C19: every sequence of writes of any length through a FakeTLS connection is read back by a
// FakeTLS peer as the same byte stream (each record stays within the 16-bit record length), and
// the client handshake succeeds only when the server hello carries the HMAC digest made with the
// shared secret and the client's random.
package main

import (
	"bytes"
	"errors"
	"fmt"
	"io"
	"time"

	"github.com/gotd/neo"

	"github.com/gotd/td/internal/verif/kit"
	rt "github.com/gotd/td/internal/verif/lib/reftransport"
	"github.com/gotd/td/mtproxy"
	"github.com/gotd/td/mtproxy/faketls"
)

var (
	theSecret = kit.Pattern("stream:c19secret", 16)
	v12       = [2]byte{3, 3}
	fixedNow  = time.Date(2024, 5, 6, 7, 8, 9, 0, time.UTC)
)

// Hello describes the server answer.
type Hello struct {
	// Variant: "valid" | "secret-bit" (server HMAC key = secret with bit N flipped) | "secret-empty" |
	// "secret-longer" | "random-bit" (server uses the client random with bit N flipped) |
	// "random-zero" | "random-unxored" (client random with the timestamp xor undone) |
	// "flip" (valid answer with bit N of the answer flipped on the wire) | "digest-zero"
	Variant string `json:"variant"`
	N       int    `json:"n,omitempty"`
	AppLen  int    `json:"app_len"`         // size of the final application record
	Extra   int    `json:"extra,omitempty"` // additional handshake records before ChangeCipherSpec
}

// W is one session.
type W struct {
	Hello Hello `json:"hello"`
	// Writes: sizes of client Write calls after the handshake.
	Writes []int `json:"writes,omitempty"`
	// Server: sizes of the application records the server sends after its hello; -1 = a
	// ChangeCipherSpec record.
	Server []int `json:"server_records,omitempty"`
	// Conn: chunking of both underlying connections.
	Conn rt.Chunking `json:"conn"`
	// Buf: size of the buffer passed to Read (0 = 64 KiB).
	Buf int `json:"buf,omitempty"`
	// Secret: how the client got its mtproxy.Secret: "" = struct literal {Secret: the 16 secret bytes,
	// CloakHost, Type: TLS}; "parsed" = mtproxy.ParseSecret(0xee || the 16 secret bytes || host), the
	// form a user configures. The server always keys its digest with the 16 secret bytes.
	Secret string `json:"secret_form,omitempty"`
}

const cloakHost = "example.com"

func flipBit(b []byte, n int) []byte {
	c := append([]byte(nil), b...)
	c[n/8] ^= 1 << (n % 8)
	return c
}

// readStream reads until the record stream ends cleanly (io.EOF at a record boundary).
func readStream(r io.Reader, bufSize int) ([]byte, error) {
	if bufSize == 0 {
		bufSize = 64 << 10
	}
	buf := make([]byte, bufSize)
	var out []byte
	for i := 0; ; i++ {
		n, err := r.Read(buf)
		out = append(out, buf[:n]...)
		if err != nil {
			if errors.Is(err, io.EOF) {
				return out, nil
			}
			return out, err
		}
		if i > 1<<24 {
			return out, errors.New("no progress")
		}
	}
}

func eval(w W) kit.Result {
	conn := &rt.Conn{}
	var (
		sent         []byte // everything the server put on the wire
		helloLen     int
		clientRandom [32]byte
		serverData   []byte
		helloErr     string
	)
	conn.OnRead = func(c *rt.Conn) {
		if c.R != nil {
			return
		}
		// the ClientHello is complete: one handshake record
		recs, err := rt.ParseRecords(c.W)
		if err != nil || len(recs) != 1 || recs[0].Type != rt.RecHandshake || len(recs[0].Data) < 71 || recs[0].Data[0] != 0x01 || c.W[43] != 0x20 {
			helloErr = fmt.Sprintf("client hello is not a single well-formed handshake record (%d bytes, err %v)", len(c.W), err)
			c.R = bytes.NewReader(nil)
			return
		}
		copy(clientRandom[:], c.W[11:43])
		sp := rt.ServerHelloSpec{Secret: theSecret, ClientRandom: clientRandom, SessionID: c.W[44:76],
			ExtraHandshake: w.Hello.Extra, AppData: kit.Pattern("stream:c19app", w.Hello.AppLen)}
		switch w.Hello.Variant {
		case "valid", "flip", "digest-zero":
		case "secret-bit":
			sp.Secret = flipBit(theSecret, w.Hello.N)
		case "secret-empty":
			sp.Secret = nil
		case "secret-longer":
			sp.Secret = append(append([]byte(nil), theSecret...), 1) // (a trailing zero byte would be the same HMAC key)
		case "random-bit":
			copy(sp.ClientRandom[:], flipBit(clientRandom[:], w.Hello.N))
		case "random-zero":
			sp.ClientRandom = [32]byte{}
		case "random-unxored":
			ts := uint32(fixedNow.Unix())
			for i := 0; i < 4; i++ {
				sp.ClientRandom[28+i] ^= byte(ts >> (8 * i))
			}
		default:
			panic("unknown hello variant " + w.Hello.Variant)
		}
		hello := rt.ServerHello(sp)
		switch w.Hello.Variant {
		case "flip":
			hello = flipBit(hello, w.Hello.N)
		case "digest-zero":
			for i := 0; i < 32; i++ {
				hello[rt.ServerRandomOffset+i] = 0
			}
		}
		helloLen = len(hello)
		sent = append(sent, hello...)
		for i, n := range w.Server {
			if n < 0 {
				sent = rt.AppendRecord(sent, rt.RecChangeCipherSpec, v12, []byte{1})
				continue
			}
			d := kit.Pattern(fmt.Sprint("stream:c19srv-", i), n)
			serverData = append(serverData, d...)
			sent = rt.AppendRecord(sent, rt.RecApplication, v12, d)
		}
		c.R = rt.NewScriptReader(sent, w.Conn)
	}

	client := faketls.VerifNewFakeTLS(kit.NewStream(0xC19), neo.NewTime(fixedNow), conn)
	sec := mtproxy.Secret{Secret: theSecret, CloakHost: cloakHost, Type: mtproxy.TLS}
	if w.Secret == "parsed" {
		raw := append(append([]byte{0xee}, theSecret...), cloakHost...)
		var perr error
		if sec, perr = mtproxy.ParseSecret(raw); perr != nil {
			return kit.Bad("parse-secret", "ParseSecret(ee || secret || %q): %v", cloakHost, perr)
		}
	}
	err := client.Handshake([4]byte{0xdd, 0xdd, 0xdd, 0xdd}, 2, sec)
	if helloErr != "" {
		return kit.Bad("client-hello-malformed", "%s", helloErr)
	}
	if conn.R == nil {
		return kit.Bad("handshake-no-read", "Handshake returned (%v) without reading the server answer", err)
	}
	canonical := w.Hello.Variant == "valid" && w.Hello.Extra == 0
	if err != nil {
		if canonical {
			return kit.Bad("valid-hello-rejected"+secretSuffix(w), "server hello built per the MTProxy scheme with the right secret and client random was rejected: %v", err)
		}
		return kit.OKo("hello:" + w.Hello.Variant + ":rejected")
	}
	// success: the answer the client consumed must carry the right digest
	consumed := conn.R.(*rt.ScriptReader).Consumed()
	okDigest := false
	for _, n := range []int{consumed, helloLen} {
		if n >= rt.ServerRandomOffset+32 && n <= len(sent) &&
			bytes.Equal(rt.ServerHelloDigest(theSecret, clientRandom, sent[:n]), sent[rt.ServerRandomOffset:rt.ServerRandomOffset+32]) {
			okDigest = true
		}
	}
	if n, ok := rt.ServerHelloExtent(sent); ok &&
		bytes.Equal(rt.ServerHelloDigest(theSecret, clientRandom, sent[:n]), sent[rt.ServerRandomOffset:rt.ServerRandomOffset+32]) {
		okDigest = true
	}
	if !okDigest {
		return kit.Bad("accepted-bad-digest:"+w.Hello.Variant+secretSuffix(w), "handshake succeeded although the server hello (%d bytes consumed) does not carry HMAC-SHA256(secret, client_random || hello) (variant %s n=%d)", consumed, w.Hello.Variant, w.Hello.N)
	}
	if w.Hello.Variant != "valid" {
		return kit.Bad("accepted-bad-digest:"+w.Hello.Variant, "harness inconsistency: variant %s produced a valid digest", w.Hello.Variant)
	}

	// server -> client application data, through the client's Read
	got, rerr := readStream(client, w.Buf)
	if rerr != nil {
		return kit.Bad("s2c-read-error", "client Read after the handshake: %v (got %d of %d bytes)", rerr, len(got), len(serverData))
	}
	if !bytes.Equal(got, serverData) {
		return kit.Bad("s2c-data", "client read %d bytes, server sent %d application bytes in records %v", len(got), len(serverData), w.Server)
	}

	// client -> server: writes of any length, read back by a FakeTLS peer
	helloEnd := len(conn.W)
	var all []byte
	maxWrite := 0
	for i, n := range w.Writes {
		d := kit.Pattern(fmt.Sprint("stream:c19w-", i), n)
		all = append(all, d...)
		if n > maxWrite {
			maxWrite = n
		}
		if _, err := client.Write(d); err != nil {
			return kit.Bad("write-error", "Write %d of %d bytes: %v", i, n, err)
		}
	}
	if len(w.Writes) == 0 {
		return kit.OKo("hello:valid:accepted")
	}
	wire := conn.W[helloEnd:]
	// (1) reference peer: TLS record layer parser; (2) td peer: a second FakeTLS reading the same bytes
	refGot, perr := rt.ApplicationStream(wire)
	peer := faketls.VerifNewFakeTLS(kit.NewStream(1), neo.NewTime(fixedNow), rt.NewConn(wire, w.Conn))
	peerGot, rerr := readStream(peer, w.Buf)
	refOK := perr == nil && bytes.Equal(refGot, all)
	peerOK := rerr == nil && bytes.Equal(peerGot, all)
	if !refOK || !peerOK {
		class := "unreadable-by-peer"
		switch {
		case maxWrite > 0xffff:
			class = "write>65535:unreadable-by-peer"
		case refOK:
			class = "unreadable-by-faketls-peer"
		case peerOK:
			class = "unreadable-by-reference-peer"
		}
		return kit.Bad(class, "writes %v (%d bytes) produced a %d-byte record stream; reference record parser: %d application bytes, err %v, first difference at %d; FakeTLS peer: %d bytes, err %v, first difference at %d",
			w.Writes, len(all), len(wire), len(refGot), perr, firstDiff(refGot, all), len(peerGot), rerr, firstDiff(peerGot, all))
	}
	recs, _ := rt.ParseRecords(wire)
	for _, r := range recs {
		if len(r.Data) > 0xffff {
			return kit.Bad("record>65535", "record of %d bytes", len(r.Data))
		}
	}
	out := "writes:<=65535"
	if maxWrite > 0xffff {
		out = "writes:>65535"
	}
	return kit.OKo(out)
}

func secretSuffix(w W) string {
	if w.Secret != "" {
		return ":secret-" + w.Secret
	}
	return ""
}

func firstDiff(a, b []byte) int {
	for i := 0; i < len(a) && i < len(b); i++ {
		if a[i] != b[i] {
			return i
		}
	}
	if len(a) < len(b) {
		return len(a)
	}
	return len(b)
}

func seqs(alpha []int, maxLen int) [][]int {
	var out [][]int
	var rec func(cur []int)
	rec = func(cur []int) {
		if len(cur) > 0 {
			out = append(out, append([]int(nil), cur...))
		}
		if len(cur) == maxLen {
			return
		}
		for _, a := range alpha {
			rec(append(cur, a))
		}
	}
	rec(nil)
	return out
}

func main() {
	kit.Main("C19", "exploration", func(c *kit.Ctx) {
		fam := kit.NewFamily(c, "session", eval)
		if c.Replaying() {
			return
		}
		c.Rule("every session starts with the real client Handshake against a scripted reference MTProxy server (ServerHello + ChangeCipherSpec + application record, digest = HMAC-SHA256(secret, client_random || answer with zeroed random)). " +
			"(hello) valid answers with final record of {0,1,32,1024,4096,16384,65535} bytes x {0,1,2,15,16} extra handshake records x chunkings {whole, 1-byte, every single split point; thorough: every pair of split points of the 170-byte answer}; " +
			"server key = secret with each single bit flipped (128), empty, one byte longer; server-side client random with each single bit flipped (256; quick: every 4th), zeroed, timestamp xor undone; zeroed digest; every single-bit flip of the answer on the wire (quick: every 3rd bit). " +
			"(secret form) valid answers {0,32,65535} x {0,2} extra records x {whole,1-byte}, the 128 (quick 64) single-bit server keys and the 5 wrong-secret/random variants again with the client's mtproxy.Secret obtained from mtproxy.ParseSecret(0xee || 16 secret bytes || host) instead of a struct literal (the server keys its digest with the 16 secret bytes; classes ...:secret-parsed). " +
			"(writes) write sequences: all singles and pairs over {0,1,2,16383,16384,16385,65534,65535,65536,65537,131071} plus the exact multiples 2x65535, 3x65535 of the record limit (thorough: pairs also with 1 MiB and 3 MiB+7; quick: 1 MiB / 3 MiB+7 as singles and in 4 mixed sequences, pairs over {0,1,16384,65535,65536,65537}), triples over {0,1,65535,65536} (quick: {1,65535,65536}), x Read buffer {7, 4096, 65536, 1 MiB} x connection chunking {whole, 1000-byte}; " +
			"(server records) sequences <=3 over application records of {0,1,16384,65535} bytes with ChangeCipherSpec records interleaved x buffers x chunkings {whole, 1-byte, 7-byte}. " +
			"Oracle: handshake success implies the consumed answer carries the right digest, and the canonical right answer is accepted; bytes read by the peer (a second FakeTLS and a reference TLS-record parser) equal the bytes written; every record payload <= 65535. distinct = distinct witnesses.")
		c.Assume("reference server answer and record parser in lib/reftransport written from the MTProxy FakeTLS scheme / RFC 5246 record layer; clock injected through an in-package accessor (VerifNewFakeTLS); uTLS ClientHello generation is not under test; scripted connection reports EOF separately from data")

		var ws []W
		add := func(w W) { ws = append(ws, w) }
		valid := func(app, extra int) Hello { return Hello{Variant: "valid", AppLen: app, Extra: extra} }
		step := func(q, t int) int {
			if c.Quick() {
				return q
			}
			return t
		}

		// hello family
		helloLen := 5 + 122 + 6 + 5 + 32
		for _, app := range []int{0, 1, 32, 1024, 4096, 16384, 65535} {
			for _, extra := range []int{0, 1, 2, 15, 16} {
				for _, ch := range []rt.Chunking{rt.Whole(), rt.OneByte(), rt.Every(7)} {
					add(W{Hello: valid(app, extra), Conn: ch, Server: []int{5}})
				}
			}
		}
		for p := 1; p < helloLen+10; p++ {
			add(W{Hello: valid(32, 0), Conn: rt.CutAt(p), Server: []int{5}})
		}
		if c.Thorough() {
			for a := 1; a < helloLen+10; a++ {
				for b := a + 1; b < helloLen+10; b++ {
					add(W{Hello: valid(32, 0), Conn: rt.CutAt(a, b), Server: []int{5}})
				}
			}
		}
		for n := 0; n < 128; n++ {
			add(W{Hello: Hello{Variant: "secret-bit", N: n, AppLen: 32}, Conn: rt.Whole()})
		}
		for n := 0; n < 256; n += step(4, 1) {
			add(W{Hello: Hello{Variant: "random-bit", N: n, AppLen: 32}, Conn: rt.Whole()})
		}
		for _, v := range []string{"secret-empty", "secret-longer", "random-zero", "random-unxored", "digest-zero"} {
			for _, extra := range []int{0, 2} {
				add(W{Hello: Hello{Variant: v, AppLen: 32, Extra: extra}, Conn: rt.Whole()})
				add(W{Hello: Hello{Variant: v, AppLen: 32, Extra: extra}, Conn: rt.OneByte()})
			}
		}
		for _, extra := range []int{0, 1} {
			total := (helloLen + extra*9) * 8
			for n := 0; n < total; n += step(3, 1) {
				add(W{Hello: Hello{Variant: "flip", N: n, AppLen: 32, Extra: extra}, Conn: rt.Whole(), Server: []int{5}})
			}
		}

		// the same handshakes with the secret in the form a user configures it (ParseSecret)
		for _, app := range []int{0, 32, 65535} {
			for _, extra := range []int{0, 2} {
				for _, ch := range []rt.Chunking{rt.Whole(), rt.OneByte()} {
					add(W{Hello: valid(app, extra), Conn: ch, Server: []int{5}, Secret: "parsed", Writes: []int{1, 65536}})
				}
			}
		}
		for n := 0; n < 128; n += step(2, 1) {
			add(W{Hello: Hello{Variant: "secret-bit", N: n, AppLen: 32}, Conn: rt.Whole(), Secret: "parsed"})
		}
		for _, v := range []string{"secret-empty", "secret-longer", "random-zero", "random-unxored", "digest-zero"} {
			add(W{Hello: Hello{Variant: v, AppLen: 32}, Conn: rt.Whole(), Secret: "parsed"})
		}

		// writes family
		sizes := []int{0, 1, 2, 16383, 16384, 16385, 65534, 65535, 65536, 65537, 131071}
		var writeSeqs [][]int
		for _, n := range sizes {
			writeSeqs = append(writeSeqs, []int{n})
		}
		writeSeqs = append(writeSeqs, []int{2 * 65535}, []int{3 * 65535}, []int{65535, 2 * 65535, 1}, []int{1 << 20}, []int{3<<20 + 7}, []int{1, 1 << 20}, []int{65535, 3<<20 + 7, 1}, []int{65536, 1 << 20}, []int{1 << 20, 65535})
		if c.Thorough() {
			for _, s := range seqs(append(append([]int(nil), sizes...), 1<<20, 3<<20+7), 2) {
				if len(s) == 2 {
					writeSeqs = append(writeSeqs, s)
				}
			}
			for _, s := range seqs([]int{0, 1, 65535, 65536}, 3) {
				if len(s) == 3 {
					writeSeqs = append(writeSeqs, s)
				}
			}
		} else {
			for _, s := range seqs([]int{0, 1, 16384, 65535, 65536, 65537}, 2) {
				if len(s) == 2 {
					writeSeqs = append(writeSeqs, s)
				}
			}
			for _, s := range seqs([]int{1, 65535, 65536}, 3) {
				if len(s) == 3 {
					writeSeqs = append(writeSeqs, s)
				}
			}
		}
		for _, s := range writeSeqs {
			for _, buf := range []int{7, 4096, 65536, 1 << 20} {
				for _, ch := range []rt.Chunking{rt.Whole(), rt.Every(1000)} {
					add(W{Hello: valid(32, 0), Writes: s, Buf: buf, Conn: ch})
				}
			}
		}
		// server records family
		for _, s := range seqs([]int{0, 1, 16384, 65535, -1}, 3) {
			for _, buf := range []int{1, 7, 4096, 0} {
				if buf == 1 && c.Quick() && len(s) == 3 {
					continue
				}
				for _, ch := range []rt.Chunking{rt.Whole(), rt.OneByte(), rt.Every(7)} {
					if ch.Mode == "one" && buf == 1 && len(s) == 3 {
						continue
					}
					add(W{Hello: valid(32, 0), Server: s, Buf: buf, Conn: ch, Writes: []int{3}})
				}
			}
		}

		c.Set("cases_planned", len(ws))
		kit.Parallel(len(ws), 16, func(i int) {
			if c.Expired() {
				return
			}
			fam.Eval(ws[i])
		})
		if c.Expired() {
			c.NotExhaustive("time budget hit before all %d planned cases were evaluated", len(ws))
		}
	})
}
