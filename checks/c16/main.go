// C16: for each transport protocol (abridged, intermediate, padded intermediate, full; with or
// without header, with or without obfuscated2) a receiver reading the byte stream produced by a
// sender gets exactly the sent payloads, in order, however the stream is split into reads;
// 4-byte frames surface as transport error codes; the listener detects the client's protocol.
//
// NOT covered here: concurrent senders on one connection (needs the controlled scheduler).
package main

import (
	"bytes"
	"context"
	"encoding/binary"
	"errors"
	"fmt"
	"io"
	"net"
	"strings"

	"github.com/gotd/td/bin"
	"github.com/gotd/td/internal/verif/kit"
	rt "github.com/gotd/td/internal/verif/lib/reftransport"
	"github.com/gotd/td/mtproxy"
	"github.com/gotd/td/mtproxy/obfuscated2"
	"github.com/gotd/td/mtproxy/obfuscator"
	"github.com/gotd/td/proto/codec"
	"github.com/gotd/td/transport"
)

// Frame describes one payload.
type Frame struct {
	Len int `json:"len"`
	// Pad: padded intermediate only. td sender: low two bits of the last payload byte (td derives
	// its padding length from them); reference sender: number of padding bytes.
	Pad int `json:"pad,omitempty"`
	// Code: for Len == 4 the payload is this int32, little endian.
	Code int32 `json:"code,omitempty"`
}

// W is a witness: protocol, wrapping, who produces the byte stream, payloads, read chunking.
type W struct {
	Proto  string      `json:"proto"`
	Wrap   string      `json:"wrap"` // header | noheader | obf | obf-secret
	Src    string      `json:"src"`  // td (codec.Write) | ref (reference encoder) | listener (transport.Conn.Send -> Listener.Accept)
	Frames []Frame     `json:"frames"`
	Chunk  rt.Chunking `json:"chunk"`
	// Conns > 1 (src listener): that many connections one after the other, made by Handshake from the
	// same transport.Protocol value and accepted by the same transport.Listener; each carries the
	// whole session.
	Conns int `json:"connections,omitempty"`
	// Echo (src listener): after receiving, the accepting side sends every payload back with Send on
	// the accepted connection and the connecting side reads them with Recv (server -> client).
	Echo bool `json:"echo,omitempty"`
}

const obfDC = 2

var obfSecret = kit.Pattern("stream:c16secret", 16)

func secretOf(wrap string) []byte {
	if wrap == "obf-secret" {
		return obfSecret
	}
	return nil
}

func isObf(wrap string) bool { return wrap == "obf" || wrap == "obf-secret" }

func newCodec(name string) codec.Codec {
	switch name {
	case rt.Abridged:
		return codec.Abridged{}
	case rt.Intermediate:
		return codec.Intermediate{}
	case rt.Padded:
		return codec.PaddedIntermediate{}
	case rt.Full:
		return &codec.Full{}
	}
	panic("unknown codec " + name)
}

func protocolOf(name string) transport.Protocol {
	switch name {
	case rt.Abridged:
		return transport.Abridged
	case rt.Intermediate:
		return transport.Intermediate
	case rt.Padded:
		return transport.PaddedIntermediate
	case rt.Full:
		return transport.Full
	}
	panic("unknown protocol " + name)
}

func codecName(c transport.Codec) string {
	switch c.(type) {
	case codec.Abridged:
		return rt.Abridged
	case codec.Intermediate:
		return rt.Intermediate
	case codec.PaddedIntermediate:
		return rt.Padded
	case *codec.Full:
		return rt.Full
	case nil:
		return "nil"
	}
	return fmt.Sprintf("%T", c)
}

func payloadOf(w W, i int) []byte {
	f := w.Frames[i]
	if f.Len == 4 {
		var b [4]byte
		binary.LittleEndian.PutUint32(b[:], uint32(f.Code))
		return b[:]
	}
	var p []byte
	if f.Len > 1<<16 {
		// large payloads: cheap but position-sensitive content
		p = make([]byte, f.Len)
		for k := 0; k < len(p); k += 251 {
			p[k] = byte(k>>8) ^ byte(k) ^ byte(i+1)
		}
		copy(p, kit.Pattern(fmt.Sprint("stream:c16-", i), 64))
		copy(p[len(p)-64:], kit.Pattern(fmt.Sprint("stream:c16e-", i), 64))
	} else {
		p = kit.Pattern(fmt.Sprint("stream:c16-", i), f.Len)
	}
	if w.Proto == rt.Padded && w.Src != "ref" && len(p) > 0 {
		p[len(p)-1] = p[len(p)-1]&^3 | byte(f.Pad&3)
	}
	return p
}

// mustDeliver: the whole frame (payload plus the protocol's own framing inside the length
// field) fits the 16 MiB limit, so sender and receiver both have to accept it.
func mustDeliver(proto string, n, pad int) bool {
	switch proto {
	case rt.Full:
		return n+12 <= rt.FrameLimit
	case rt.Padded:
		return n+pad <= rt.FrameLimit
	}
	return n <= rt.FrameLimit
}

func wrapCodec(w W) codec.Codec {
	cd := newCodec(w.Proto)
	if w.Wrap != "header" {
		return codec.NoHeader{Codec: cd}
	}
	return cd
}

// mustAccept: a payload the statement quantifies over (non-empty, multiple of 4, frame within the
// limit); the sender has to take it. Anything else may be rejected by the sender.
func mustAccept(proto string, n int) bool {
	return n > 0 && n%4 == 0 && mustDeliver(proto, n, 3)
}

// produce returns the byte stream on the wire and which sends were rejected by the sender. A
// rejected send must return an error and must leave the stream untouched.
func produce(w W, payloads [][]byte) (wire []byte, rejected []bool, bad *kit.Result) {
	fail := func(class, f string, a ...any) ([]byte, []bool, *kit.Result) {
		r := kit.Bad(class, f, a...)
		return nil, nil, &r
	}
	rejected = make([]bool, len(payloads))
	// onErr decides what a send error means; returns a violation or nil (= legitimately rejected)
	onErr := func(i int, before, after int, err error) *kit.Result {
		if mustAccept(w.Proto, len(payloads[i])) {
			r := kit.Bad("send-error:"+w.Proto, "send of payload %d (%d bytes): %v", i, len(payloads[i]), err)
			return &r
		}
		if after != before {
			r := kit.Bad("rejected-send-wrote-bytes:"+w.Proto, "send %d (%d bytes) returned %v but put %d bytes on the wire", i, len(payloads[i]), err, after-before)
			return &r
		}
		rejected[i] = true
		return nil
	}
	switch w.Src {
	case "td":
		conn := &rt.Conn{}
		var sink io.Writer = conn
		if isObf(w.Wrap) {
			o := obfuscated2.NewObfuscated2(kit.NewStream(11), conn)
			if err := o.Handshake(rt.Tag(w.Proto), obfDC, mtproxy.Secret{Secret: secretOf(w.Wrap)}); err != nil {
				return fail("obf-handshake", "%v", err)
			}
			sink = o
		}
		cd := wrapCodec(w)
		if err := cd.WriteHeader(sink); err != nil {
			return fail("send-error:"+w.Proto, "WriteHeader: %v", err)
		}
		for i, p := range payloads {
			b := &bin.Buffer{Buf: append([]byte(nil), p...)}
			before := len(conn.W)
			if err := cd.Write(sink, b); err != nil {
				if r := onErr(i, before, len(conn.W), err); r != nil {
					return nil, nil, r
				}
			}
		}
		return conn.W, rejected, nil
	case "listener":
		conn := &rt.Conn{}
		var tc transport.Conn
		var err error
		if isObf(w.Wrap) {
			oc := obfuscator.Obfuscated2(kit.NewStream(11), conn)
			if err := oc.Handshake(rt.Tag(w.Proto), obfDC, mtproxy.Secret{}); err != nil {
				return fail("obf-handshake", "%v", err)
			}
			name := w.Proto
			tc, err = transport.NewProtocol(func() transport.Codec { return codec.NoHeader{Codec: newCodec(name)} }).Handshake(oc)
		} else {
			tc, err = protocolOf(w.Proto).Handshake(conn)
		}
		if err != nil {
			return fail("send-error:"+w.Proto, "Handshake: %v", err)
		}
		for i, p := range payloads {
			before := len(conn.W)
			if err := tc.Send(context.Background(), &bin.Buffer{Buf: append([]byte(nil), p...)}); err != nil {
				if r := onErr(i, before, len(conn.W), err); r != nil {
					return nil, nil, r
				}
			}
		}
		return conn.W, rejected, nil
	case "ref":
		var body []byte
		for i, p := range payloads {
			body = rt.Encode(body, w.Proto, uint32(i), p, kit.Pattern("stream:c16pad", w.Frames[i].Pad))
		}
		switch {
		case isObf(w.Wrap):
			var rnd [64]byte
			copy(rnd[:], kit.Pattern("stream:c16init", 64))
			if r := rt.Obf2ReservedPrefix(rnd[:]); r != "" {
				panic("harness: fixed init starts with reserved prefix " + r)
			}
			hdr, o := rt.Obf2ClientHeader(rnd, rt.Tag(w.Proto), obfDC, secretOf(w.Wrap))
			o.C2S.XORKeyStream(body, body)
			return append(hdr, body...), rejected, nil
		case w.Wrap == "header":
			return append(append([]byte(nil), rt.Header(w.Proto)...), body...), rejected, nil
		}
		return body, rejected, nil
	}
	panic("unknown src " + w.Src)
}

// specCheck validates a td-produced stream against the reference decoder.
func specCheck(w W, wire []byte, payloads [][]byte) *kit.Result {
	fail := func(f string, a ...any) *kit.Result {
		r := kit.Bad("td-stream-not-spec:"+w.Proto, f, a...)
		return &r
	}
	body := wire
	switch {
	case isObf(w.Wrap):
		if len(wire) < 64 {
			return fail("obfuscated stream is %d bytes", len(wire))
		}
		o := rt.Obf2FromHeader(wire[:64], secretOf(w.Wrap))
		if o.Tag != rt.Tag(w.Proto) || o.DC != obfDC {
			return fail("obfuscated2 header decrypts to tag %x dc %d, want %x %d", o.Tag, o.DC, rt.Tag(w.Proto), obfDC)
		}
		body = make([]byte, len(wire)-64)
		o.C2S.XORKeyStream(body, wire[64:])
	case w.Wrap == "header" || w.Src == "listener":
		h := rt.Header(w.Proto)
		if !bytes.HasPrefix(wire, h) {
			return fail("stream does not start with header %x", h)
		}
		body = wire[len(h):]
	}
	frames, err := rt.DecodeStream(w.Proto, 0, body)
	if err != nil {
		return fail("reference decoder: %v", err)
	}
	if len(frames) != len(payloads) {
		return fail("reference decoder sees %d frames, %d were sent", len(frames), len(payloads))
	}
	for i, p := range payloads {
		f := frames[i]
		if w.Proto == rt.Padded {
			if len(f) < len(p) || len(f)-len(p) > 15 || !bytes.Equal(f[:len(p)], p) {
				return fail("frame %d: %d bytes on the wire for a %d-byte payload (padding must be 0..15) or content differs", i, len(f), len(p))
			}
			continue
		}
		if !bytes.Equal(f, p) {
			return fail("frame %d differs from payload (%d vs %d bytes)", i, len(f), len(p))
		}
	}
	return nil
}

func wantCode(code int32) int32 { return -code } // wraps for MinInt32, as any int32 negation does

// eval: a failure in a session that contained rejected sends is attributed to them (own class)
// when the same session without the rejected sends passes; otherwise the original class stands.
func eval(w W) kit.Result {
	if w.Conns > 1 || w.Echo {
		return evalDuplex(w)
	}
	r, rejected := evalSession(w)
	if r.Class == "" || len(rejected) == 0 || strings.HasPrefix(r.Class, "rejected-send-wrote-bytes:") {
		return r
	}
	clean := w
	clean.Frames = nil
	for i, f := range w.Frames {
		if !rejected[i] {
			clean.Frames = append(clean.Frames, f)
		}
	}
	if rc, _ := evalSession(clean); rc.Class == "" {
		r.Msg = fmt.Sprintf("%d of %d sends were rejected by the sender (error returned, nothing written) and the same session without them passes; with them: [%s] %s", len(rejected), len(w.Frames), r.Class, r.Msg)
		r.Class = "rejected-send-disturbs-stream:" + w.Proto
	}
	return r
}

// evalSession returns the verdict and the indices of the sends the sender rejected.
func evalSession(w W) (kit.Result, map[int]bool) {
	allPayloads := make([][]byte, len(w.Frames))
	for i := range w.Frames {
		allPayloads[i] = payloadOf(w, i)
	}
	wire, rejected, bad := produce(w, allPayloads)
	if bad != nil {
		return *bad, nil
	}
	// from here on only the accepted sends count
	var payloads [][]byte
	var frames []Frame
	nRejected := 0
	for i, p := range allPayloads {
		if rejected[i] {
			nRejected++
			continue
		}
		payloads = append(payloads, p)
		frames = append(frames, w.Frames[i])
	}
	r := evalAccepted(w, wire, frames, payloads, nRejected)
	var rej map[int]bool
	for i, x := range rejected {
		if x {
			if rej == nil {
				rej = map[int]bool{}
			}
			rej[i] = true
		}
	}
	return r, rej
}

func evalAccepted(w W, wire []byte, frames []Frame, payloads [][]byte, nRejected int) kit.Result {
	overLimit := false
	if n := len(frames); n > 0 && !mustDeliver(w.Proto, frames[n-1].Len, 3) {
		overLimit = true // accepted by the sender although the frame exceeds the limit
	}
	if w.Src != "ref" && !overLimit {
		if r := specCheck(w, wire, payloads); r != nil {
			return *r
		}
	}

	// receiver
	conn := rt.NewConn(wire, w.Chunk)
	var recv func(b *bin.Buffer) error
	if w.Src == "listener" && len(wire) == 0 && len(payloads) == 0 {
		// every send was rejected and the protocol has no header: there is no connection to detect
		return kit.OKo(w.Proto + ":" + w.Wrap + ":nothing-on-the-wire")
	}
	if w.Src == "listener" {
		ln := &rt.Listener{Queue: []net.Conn{conn}}
		var l transport.Listener
		if isObf(w.Wrap) {
			l = transport.Listen(transport.ObfuscatedListener(ln))
		} else {
			l = transport.Listen(ln)
		}
		sc, err := l.Accept()
		if err != nil {
			return kit.Bad("listener-accept:"+w.Proto, "Accept: %v", err)
		}
		if got := codecName(transport.VerifCodecOf(sc)); got != w.Proto {
			return kit.Bad("listener-detect:"+w.Proto+"->"+got, "client chose %s, listener detected %s", w.Proto, got)
		}
		recv = func(b *bin.Buffer) error { return sc.Recv(context.Background(), b) }
	} else {
		var src io.Reader = conn
		if isObf(w.Wrap) {
			rw, md, err := obfuscated2.Accept(conn, secretOf(w.Wrap))
			if err != nil {
				return kit.Bad("obf-accept", "Accept: %v", err)
			}
			if md.Protocol != rt.Tag(w.Proto) || int16(md.DC) != obfDC {
				return kit.Bad("obf-metadata", "accepted tag %x dc %d, want %x %d", md.Protocol, int16(md.DC), rt.Tag(w.Proto), obfDC)
			}
			src = rw
		}
		rc := wrapCodec(w)
		if err := rc.ReadHeader(src); err != nil {
			return kit.Bad("recv-header:"+w.Proto, "ReadHeader: %v", err)
		}
		recv = func(b *bin.Buffer) error { return rc.Read(src, b) }
	}

	b := &bin.Buffer{}
	outcome := "delivered"
	for i, p := range payloads {
		err := recv(b)
		f := frames[i]
		last := i == len(payloads)-1
		if last && overLimit {
			// statement covers payloads up to the frame limit only: anything but wrong data is fine
			if err != nil {
				return kit.OKo(w.Proto + ":over-limit:sent-but-refused-by-receiver")
			}
			if bytes.Equal(b.Buf, p) {
				return kit.OKo(w.Proto + ":over-limit:delivered")
			}
			return kit.Bad("payload-mismatch:"+w.Proto, "over-limit frame %d delivered with wrong content (%d bytes for %d)", i, b.Len(), len(p))
		}
		if f.Len == 4 {
			var pe *codec.ProtocolErr
			if !errors.As(err, &pe) {
				return kit.Bad("error-code:"+w.Proto, "frame %d is the 4-byte value %d: want ProtocolErr, got err=%v buf=%x", i, f.Code, err, b.Buf)
			}
			if pe.Code != wantCode(f.Code) {
				return kit.Bad("error-code:"+w.Proto, "frame %d is the 4-byte value %d: ProtocolErr code %d, want %d", i, f.Code, pe.Code, wantCode(f.Code))
			}
			outcome = "delivered+codes"
			continue
		}
		if err != nil {
			return kit.Bad("recv-error:"+w.Proto, "frame %d (%d bytes) of %d: %v", i, len(p), len(payloads), err)
		}
		if w.Src == "ref" && w.Proto == rt.Padded && f.Pad >= 4 {
			// The specification allows 0..15 padding bytes, td strips length%4 only. Its own sender
			// never pads more than 3, so the statement (sender -> receiver) is silent here.
			extra := f.Pad - f.Pad%4
			if b.Len() == len(p)+extra && bytes.Equal(b.Buf[:len(p)], p) {
				outcome = "padded:pad>=4:extra-words-kept"
				continue
			}
			if bytes.Equal(b.Buf, p) {
				outcome = "padded:pad>=4:stripped"
				continue
			}
			return kit.Bad("payload-mismatch:"+w.Proto, "frame %d: got %d bytes for %d-byte payload with %d padding bytes", i, b.Len(), len(p), f.Pad)
		}
		if !bytes.Equal(b.Buf, p) {
			return kit.Bad("payload-mismatch:"+w.Proto, "frame %d: got %d bytes %s, sent %d bytes %s", i, b.Len(), head(b.Buf), len(p), head(p))
		}
	}
	if err := recv(b); err == nil {
		return kit.Bad("extra-frame:"+w.Proto, "after the %d sent frames one more Read returned a %d-byte frame", len(payloads), b.Len())
	}
	if nRejected > 0 {
		outcome += "+rejected-sends"
	}
	return kit.OKo(w.Proto + ":" + w.Wrap + ":" + outcome)
}

// recvAll reads len(payloads) frames and then expects no further frame. where names the leg
// ("" = first connection client->server; ":server-to-client", ":connection-2", ...).
func recvAll(w W, where string, recv func(b *bin.Buffer) error, payloads [][]byte) *kit.Result {
	fail := func(class, f string, a ...any) *kit.Result {
		r := kit.Bad(class+":"+w.Proto+where, f, a...)
		return &r
	}
	b := &bin.Buffer{}
	for i, p := range payloads {
		err := recv(b)
		if len(p) == 4 {
			code := int32(binary.LittleEndian.Uint32(p))
			var pe *codec.ProtocolErr
			if !errors.As(err, &pe) || pe.Code != wantCode(code) {
				return fail("error-code", "frame %d is the 4-byte value %d: want ProtocolErr{%d}, got err=%v buf=%x", i, code, wantCode(code), err, b.Buf)
			}
			continue
		}
		if err != nil {
			return fail("recv-error", "frame %d (%d bytes) of %d: %v", i, len(p), len(payloads), err)
		}
		if !bytes.Equal(b.Buf, p) {
			return fail("payload-mismatch", "frame %d: got %d bytes %s, sent %d bytes %s", i, b.Len(), head(b.Buf), len(p), head(p))
		}
	}
	if err := recv(b); err == nil {
		return fail("extra-frame", "after the %d sent frames one more Recv returned a %d-byte frame", len(payloads), b.Len())
	}
	return nil
}

// refFrames checks a td-produced frame stream (no connection header) against the reference decoder.
func refFrames(w W, where string, body []byte, payloads [][]byte) *kit.Result {
	fail := func(f string, a ...any) *kit.Result {
		r := kit.Bad("td-stream-not-spec:"+w.Proto+where, f, a...)
		return &r
	}
	frames, err := rt.DecodeStream(w.Proto, 0, body)
	if err != nil {
		return fail("reference decoder: %v", err)
	}
	if len(frames) != len(payloads) {
		return fail("reference decoder sees %d frames, %d were sent", len(frames), len(payloads))
	}
	for i, p := range payloads {
		f := frames[i]
		if w.Proto == rt.Padded {
			if len(f) < len(p) || len(f)-len(p) > 15 || !bytes.Equal(f[:len(p)], p) {
				return fail("frame %d: %d bytes on the wire for a %d-byte payload (padding must be 0..15) or content differs", i, len(f), len(p))
			}
			continue
		}
		if !bytes.Equal(f, p) {
			return fail("frame %d differs from payload (%d vs %d bytes)", i, len(f), len(p))
		}
	}
	return nil
}

// evalDuplex: src listener only, payloads all acceptable. Conns connections in sequence from one
// Protocol value into one Listener; on each the client sends all payloads, the accepting side
// receives them and (Echo) sends them back, the client receives them.
func evalDuplex(w W) kit.Result {
	if w.Src != "listener" {
		panic("duplex sessions are listener sessions")
	}
	payloads := make([][]byte, len(w.Frames))
	for i := range w.Frames {
		payloads[i] = payloadOf(w, i)
		if !mustAccept(w.Proto, len(payloads[i])) {
			panic("duplex sessions carry acceptable payloads only")
		}
	}
	ln := &rt.Listener{}
	var l transport.Listener
	if isObf(w.Wrap) {
		l = transport.Listen(transport.ObfuscatedListener(ln))
	} else {
		l = transport.Listen(ln)
	}
	// one Protocol value for all connections, as a dialer holds it
	proto := protocolOf(w.Proto)
	if isObf(w.Wrap) {
		name := w.Proto
		proto = transport.NewProtocol(func() transport.Codec { return codec.NoHeader{Codec: protocolOf(name).Codec()} })
	}
	conns := w.Conns
	if conns < 1 {
		conns = 1
	}
	for k := 0; k < conns; k++ {
		where := ""
		if k > 0 {
			where = fmt.Sprintf(":connection-%d", k+1)
		}
		cconn := &rt.Conn{}
		var under net.Conn = cconn
		if isObf(w.Wrap) {
			oc := obfuscator.Obfuscated2(kit.NewStream(uint64(11+k)), cconn)
			if err := oc.Handshake(rt.Tag(w.Proto), obfDC, mtproxy.Secret{}); err != nil {
				return kit.Bad("obf-handshake", "%v", err)
			}
			under = oc
		}
		tc, err := proto.Handshake(under)
		if err != nil {
			return kit.Bad("send-error:"+w.Proto+where, "Handshake: %v", err)
		}
		for i, p := range payloads {
			if err := tc.Send(context.Background(), &bin.Buffer{Buf: append([]byte(nil), p...)}); err != nil {
				return kit.Bad("send-error:"+w.Proto+where, "send of payload %d (%d bytes): %v", i, len(p), err)
			}
		}
		wire := cconn.W
		if r := specCheck(w, wire, payloads); r != nil {
			r.Class += where
			return *r
		}
		sconn := rt.NewConn(wire, w.Chunk)
		ln.Queue = append(ln.Queue, sconn)
		sc, err := l.Accept()
		if err != nil {
			return kit.Bad("listener-accept:"+w.Proto+where, "Accept: %v", err)
		}
		if got := codecName(transport.VerifCodecOf(sc)); got != w.Proto {
			return kit.Bad("listener-detect:"+w.Proto+"->"+got+where, "client chose %s, listener detected %s", w.Proto, got)
		}
		if r := recvAll(w, where, func(b *bin.Buffer) error { return sc.Recv(context.Background(), b) }, payloads); r != nil {
			return *r
		}
		if !w.Echo {
			continue
		}
		where += ":server-to-client"
		for i, p := range payloads {
			if err := sc.Send(context.Background(), &bin.Buffer{Buf: append([]byte(nil), p...)}); err != nil {
				return kit.Bad("send-error:"+w.Proto+where, "send of payload %d (%d bytes) on the accepted connection: %v", i, len(p), err)
			}
		}
		back := sconn.W
		body := back
		if isObf(w.Wrap) {
			if len(wire) < 64 {
				panic("obfuscated stream without header")
			}
			body = make([]byte, len(back))
			rt.Obf2FromHeader(wire[:64], nil).S2C.XORKeyStream(body, back)
		}
		// the accepting side sends no connection header
		if r := refFrames(w, where, body, payloads); r != nil {
			return *r
		}
		cconn.R = rt.NewScriptReader(back, w.Chunk)
		if r := recvAll(w, where, func(b *bin.Buffer) error { return tc.Recv(context.Background(), b) }, payloads); r != nil {
			return *r
		}
	}
	out := w.Proto + ":" + w.Wrap + ":duplex"
	if w.Echo {
		out += ":echo"
	}
	if conns > 1 {
		out += fmt.Sprintf(":%d-connections", conns)
	}
	return kit.OKo(out)
}

func head(b []byte) string {
	if len(b) > 24 {
		return fmt.Sprintf("%x…", b[:24])
	}
	return fmt.Sprintf("%x", b)
}

// wireLen runs the sender once to learn the stream length for the chunking enumeration.
func wireLen(w W) int {
	payloads := make([][]byte, len(w.Frames))
	for i := range w.Frames {
		payloads[i] = payloadOf(w, i)
	}
	wire, _, _ := produce(w, payloads)
	return len(wire)
}

func seqs(alpha []int, maxLen int) [][]int {
	var out [][]int
	var rec func(cur []int)
	rec = func(cur []int) {
		if len(cur) > 0 {
			out = append(out, append([]int(nil), cur...))
		}
		if len(cur) == maxLen {
			return
		}
		for _, a := range alpha {
			rec(append(cur, a))
		}
	}
	rec(nil)
	return out
}

func wrapsOf(proto, src string) []string {
	if src == "listener" {
		if proto == rt.Full {
			return []string{"header"}
		}
		return []string{"header", "obf"}
	}
	if proto == rt.Full {
		return []string{"header", "noheader"}
	}
	return []string{"header", "noheader", "obf", "obf-secret"}
}

func main() {
	kit.Main("C16", "exploration", func(c *kit.Ctx) {
		fam := kit.NewFamily(c, "stream", eval)
		if c.Replaying() {
			return
		}
		c.Rule("byte streams produced by (td) codec.Write, (listener) transport.Conn.Send after Protocol.Handshake, (ref) a reference encoder written from the transport spec; " +
			"protocols {abridged, intermediate, padded, full} x wrapping {header, NoHeader, obfuscated2 without/with secret} (full has no obfuscation tag; listener: plain and obfuscated); " +
			"payload sequences: all sequences of length<=2 over {4(error code),8,12,500,504,508,512} plus triples over {8,504,508} (thorough: triples over {4,8,504,508,512}), padded-intermediate padding 0..3 on every position; " +
			"chunkings of the receiving side: whole, 1-byte reads, every single split point (streams <= 2 KiB), every pair of split points (sequences over {4,8,12} with streams <= 64 B, or <= 64 B after the 64-byte obfuscated2 header); " +
			"sessions with rejected sends (empty payload, length 6/10 not divisible by 4, 16 MiB+4) interleaved with accepted ones, 11 shapes with every single split + 3 shapes with the over-limit payload, td and listener senders, all protocols and wrappings; " +
			"duplex listener sessions (all protocols, plain and obfuscated): payload sequences {8}, {8,504,508}, {508,4,12}, {12,8,8,512} on 1, 2 (thorough 3) connections made one after the other by Handshake from one transport.Protocol value and accepted by one transport.Listener, with and without echo = the accepting side sends every payload back with Send on the accepted connection (no connection header, obfuscated with the server-to-client key) and the connecting side reads them with Recv; every single split point (applied to both directions) for one connection and for {8} on two, whole / 1-byte / 7-byte reads otherwise; classes carry :connection-<k> and :server-to-client; " +
			"large frames 64 KiB and 256 KiB (thorough: 1 MiB, 16 MiB-16, -12, -8, -4, 16 MiB, 16 MiB+4) with whole / 4 KiB / 64 KiB / 1-byte / edge splits; 4-byte frames with 9 code values; reference sender with 4..15 padding bytes (informational). " +
			"A split point p means one Read ends exactly at stream offset p, i.e. a short read of any size at any Read call (this subsumes <=2 short-read deviations). " +
			"Oracle: a send that returns an error has written nothing; received payloads == accepted payloads in order, then no further frame; 4-byte frame => *codec.ProtocolErr{Code: -value}; td-produced streams parse to the same payloads under the reference decoder; " +
			"listener: codec of the accepted connection == client's protocol. Payloads whose frame would exceed 16 MiB may be refused by either side (statement covers up to the frame limit). distinct = distinct witnesses.")
		c.Assume("scripted in-memory reader never returns (0,nil) and reports EOF separately like TCP; reference framing and obfuscated2 key schedule of lib/reftransport written from core.telegram.org/mtproto/mtproto-transports; concurrent senders on one connection are NOT covered (needs the controlled scheduler)")

		// A job is one byte stream plus the set of chunkings to run it under; the chunkings are
		// enumerated inside the worker so that the witness list is never materialised.
		type job struct {
			base   W
			single bool          // whole, 1-byte and every single split point (stream <= 2 KiB)
			pairs  int           // >0: every pair of split points if the stream is at most this long
			list   []rt.Chunking // explicit chunkings
			edges  bool          // splits near both ends of the stream
			big    bool          // multi-MiB frames: run with low parallelism (each case touches ~100 MiB)
		}
		var jobs []job
		mk := func(lens []int, pads []int) []Frame {
			fr := make([]Frame, len(lens))
			for i, n := range lens {
				fr[i] = Frame{Len: n}
				if n == 4 {
					fr[i].Code = -404
				}
				if pads != nil {
					fr[i].Pad = pads[i%len(pads)]
				}
			}
			return fr
		}
		srcs := []string{"td", "ref", "listener"}

		// sequences for the single-split enumeration
		var single [][]int
		if c.Thorough() {
			single = seqs([]int{4, 8, 12, 500, 504, 508, 512}, 2)
			for _, s := range seqs([]int{4, 8, 504, 508, 512}, 3) {
				if len(s) == 3 {
					single = append(single, s)
				}
			}
		} else {
			single = append(seqs([]int{4, 8, 504, 508}, 2), []int{12}, []int{500}, []int{512}, []int{512, 500}, []int{12, 512},
				[]int{8, 504, 508}, []int{508, 504, 8}, []int{504, 508, 504}, []int{508, 508, 508}, []int{4, 508, 4}, []int{508, 4, 504})
		}
		pairSeqs := seqs([]int{4, 8, 12}, 3)
		if c.Quick() {
			pairSeqs = append(seqs([]int{4, 8, 12}, 2), []int{8, 4, 12}, []int{12, 8, 4}, []int{4, 4, 4}, []int{8, 8, 8})
		}
		padVariants := func(proto string) [][]int {
			if proto != rt.Padded {
				return [][]int{nil}
			}
			if c.Quick() {
				return [][]int{{0, 1, 2}, {3, 2, 1}}
			}
			return [][]int{{0, 1, 2}, {1, 2, 3}, {2, 3, 0}, {3, 0, 1}}
		}
		for _, proto := range rt.Protocols {
			for _, src := range srcs {
				for _, wrap := range wrapsOf(proto, src) {
					for _, s := range single {
						if src == "listener" && len(s) == 3 {
							continue
						}
						for _, pv := range padVariants(proto) {
							j := job{base: W{Proto: proto, Wrap: wrap, Src: src, Frames: mk(s, pv)}, single: true}
							if c.Quick() && src == "listener" && wrap == "obf" && proto != rt.Abridged {
								// quick: one obfuscated listener protocol gets every split, the others a fixed set
								j.single = false
								j.list = []rt.Chunking{rt.Whole(), rt.OneByte(), rt.Every(7)}
							}
							jobs = append(jobs, j)
						}
					}
					// pairs of splits
					if c.Quick() && (src == "listener" || wrap == "obf-secret") {
						continue
					}
					lim := 64
					if isObf(wrap) {
						lim = 128
					}
					for _, s := range pairSeqs {
						jobs = append(jobs, job{base: W{Proto: proto, Wrap: wrap, Src: src, Frames: mk(s, padVariants(proto)[0])}, pairs: lim})
					}
				}
			}
		}
		both := []rt.Chunking{rt.Whole(), rt.OneByte()}
		// 4-byte frames: code values
		codes := []int32{-404, -429, -444, 404, 0, -1, 1, -2147483648, 2147483647}
		for _, proto := range rt.Protocols {
			for _, src := range srcs {
				for _, wrap := range wrapsOf(proto, src) {
					for _, code := range codes {
						jobs = append(jobs, job{base: W{Proto: proto, Wrap: wrap, Src: src, Frames: []Frame{{Len: 8}, {Len: 4, Code: code}, {Len: 12, Pad: 1}}}, list: both})
						if code != -404 {
							jobs = append(jobs, job{base: W{Proto: proto, Wrap: wrap, Src: src, Frames: []Frame{{Len: 4, Code: code}}}, list: both})
						}
					}
				}
			}
		}
		// rejected sends interleaved with accepted ones: empty payload, length not a multiple of 4
		// (full accepts those), payload above 16 MiB. The sender must return an error and write
		// nothing; the receiver must still get exactly the accepted payloads, in order.
		const over = rt.FrameLimit + 4
		rejSeqs := [][]int{{0, 8, 10, 12, 6, 4, 508, 0, 8}}
		for _, r := range []int{0, 10} {
			rejSeqs = append(rejSeqs, []int{r}, []int{r, 8}, []int{8, r, 12}, []int{8, 12, r}, []int{r, r, 8, r, 504, r, 508, 4, r, 8})
		}
		overSeqs := [][]int{{8, over, 12}, {over, 8, 8}, {0, 8, over, 10, 12, over, 508}}
		for _, proto := range rt.Protocols {
			for _, src := range []string{"td", "listener"} {
				for _, wrap := range wrapsOf(proto, src) {
					for _, s := range rejSeqs {
						jobs = append(jobs, job{base: W{Proto: proto, Wrap: wrap, Src: src, Frames: mk(s, []int{1, 3, 2})}, single: true})
					}
					if c.Quick() && (wrap == "noheader" || wrap == "obf-secret") {
						continue
					}
					for _, s := range overSeqs {
						jobs = append(jobs, job{base: W{Proto: proto, Wrap: wrap, Src: src, Frames: mk(s, []int{1, 3, 2})}, list: both, big: true})
					}
				}
			}
		}
		// both directions and consecutive connections: listener sessions in which the accepting side
		// sends everything back, and 2 (thorough 3) connections from one Protocol into one Listener
		duplexSeqs := [][]int{{8}, {8, 504, 508}, {508, 4, 12}, {12, 8, 8, 512}}
		for _, proto := range rt.Protocols {
			for _, wrap := range wrapsOf(proto, "listener") {
				for _, s := range duplexSeqs {
					for _, conns := range []int{1, 2, 3} {
						if conns == 3 && c.Quick() {
							continue
						}
						for _, echo := range []bool{true, false} {
							if conns == 1 && !echo {
								continue // the plain listener session above
							}
							j := job{base: W{Proto: proto, Wrap: wrap, Src: "listener", Frames: mk(s, []int{2, 0, 3, 1}), Conns: conns, Echo: echo}}
							if conns == 1 || (len(s) == 1 && conns == 2) {
								j.single = true // every single split point, applied to both directions
							} else {
								j.list = []rt.Chunking{rt.Whole(), rt.OneByte(), rt.Every(7)}
							}
							jobs = append(jobs, j)
						}
					}
				}
			}
		}
		// reference sender with 4..15 padding bytes (informational: the statement is silent)
		for pad := 4; pad <= 15; pad++ {
			jobs = append(jobs, job{base: W{Proto: rt.Padded, Wrap: "header", Src: "ref", Frames: []Frame{{Len: 8, Pad: pad}, {Len: 508, Pad: pad}, {Len: 12, Pad: 19 - pad}}}, list: both})
		}
		// large frames
		large := [][]int{{65536}, {8, 65536, 12}, {65536, 65536}, {1 << 18}}
		if c.Thorough() {
			large = append(large, []int{1 << 20}, []int{8, 1 << 20, 4, 1 << 20}, []int{rt.FrameLimit - 16}, []int{rt.FrameLimit - 12}, []int{rt.FrameLimit - 8},
				[]int{rt.FrameLimit - 4}, []int{rt.FrameLimit}, []int{8, rt.FrameLimit}, []int{rt.FrameLimit + 4})
		}
		for _, proto := range rt.Protocols {
			for _, src := range srcs {
				for _, wrap := range wrapsOf(proto, src) {
					for _, s := range large {
						big := s[len(s)-1] > 1<<20 || s[0] > 1<<20
						if big && (wrap == "noheader" || wrap == "obf-secret") {
							continue
						}
						if src == "ref" && s[len(s)-1] > rt.FrameLimit {
							continue // the reference sender has no business producing frames above the limit
						}
						if big && src == "listener" && s[len(s)-1] != rt.FrameLimit-12 && s[len(s)-1] != rt.FrameLimit {
							continue
						}
						j := job{base: W{Proto: proto, Wrap: wrap, Src: src, Frames: mk(s, []int{3, 1})},
							list: []rt.Chunking{rt.Whole(), rt.Every(4096), rt.Every(65536)}, big: big}
						if big {
							j.list = []rt.Chunking{rt.Whole(), rt.Every(65536)}
						}
						if !big {
							j.edges = true
							j.list = append(j.list, rt.OneByte())
						} else if src == "td" && wrap == "header" {
							j.list = append(j.list, rt.OneByte())
						}
						jobs = append(jobs, j)
					}
				}
			}
		}

		c.Set("streams", len(jobs))
		var normalJobs, bigJobs []job
		for _, j := range jobs {
			if j.big {
				bigJobs = append(bigJobs, j)
			} else {
				normalJobs = append(normalJobs, j)
			}
		}
		runJob := func(j job) {
			run := func(ch rt.Chunking) {
				if c.Expired() {
					return
				}
				w := j.base
				w.Chunk = ch
				fam.Eval(w)
			}
			for _, ch := range j.list {
				run(ch)
			}
			if !j.single && j.pairs == 0 && !j.edges {
				return
			}
			n := wireLen(j.base)
			if j.single {
				run(rt.Whole())
				run(rt.OneByte())
				if n <= 2048 {
					for p := 1; p < n; p++ {
						run(rt.CutAt(p))
					}
				}
			}
			if j.pairs > 0 && n <= j.pairs {
				for a := 1; a < n; a++ {
					for b := a + 1; b < n; b++ {
						run(rt.CutAt(a, b))
					}
				}
			}
			if j.edges {
				for _, p := range []int{1, 2, 3, 4, 5, 7, 8, 9, 12, 13, 64, 65, 68, 69, 72} {
					run(rt.CutAt(p))
					run(rt.CutAt(n - p))
				}
			}
		}
		kit.Parallel(len(normalJobs), 16, func(i int) { runJob(normalJobs[i]) })
		kit.Parallel(len(bigJobs), 4, func(i int) { runJob(bigJobs[i]) })
		if c.Expired() {
			c.NotExhaustive("time budget hit before all chunkings of all %d streams were evaluated", len(jobs))
		}
		// E-SCHED companion: concurrent senders on one connection (12 scenarios)
		c.ForkSched(12, 16)
	})
}
