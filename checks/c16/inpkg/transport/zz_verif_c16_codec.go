//go:build verif

package transport

// VerifCodecOf returns the codec a Conn created by this package (Handshake, Listener.Accept)
// uses, or nil for foreign implementations. Read-only accessor for check C16.
func VerifCodecOf(c Conn) Codec {
	if cc, ok := c.(*connection); ok {
		return cc.codec
	}
	return nil
}
