// C16 (E-SCHED part): concurrent senders on one transport connection deliver intact frames.
package main

import (
	"bytes"
	"context"
	"errors"
	"fmt"
	"net"
	"sort"
	"time"

	"github.com/gotd/td/bin"
	"github.com/gotd/td/internal/verif/kit"
	"github.com/gotd/td/internal/verif/lib/sx"
	"github.com/gotd/td/internal/verif/shim/vsched"
	"github.com/gotd/td/transport"
)

type params struct {
	Proto   string `json:"proto"`   // abridged | intermediate | padded | full
	Senders int    `json:"senders"` // concurrent Send calls
	Each    int    `json:"each"`    // frames per sender
}

// wconn is a net.Conn whose Write yields to the scheduler before appending (a socket write is a visible operation).
type wconn struct{ buf bytes.Buffer }

func (c *wconn) Read(b []byte) (int, error) { return 0, errors.New("read not expected") }
func (c *wconn) Write(b []byte) (int, error) {
	vsched.Point("sock-write")
	return c.buf.Write(b)
}
func (c *wconn) Close() error                       { return nil }
func (c *wconn) LocalAddr() net.Addr                { return nil }
func (c *wconn) RemoteAddr() net.Addr               { return nil }
func (c *wconn) SetDeadline(t time.Time) error      { return nil }
func (c *wconn) SetReadDeadline(t time.Time) error  { return nil }
func (c *wconn) SetWriteDeadline(t time.Time) error { vsched.Point("sock-deadline"); return nil }

func proto(name string) transport.Protocol {
	switch name {
	case "abridged":
		return transport.Abridged
	case "intermediate":
		return transport.Intermediate
	case "padded":
		return transport.PaddedIntermediate
	}
	return transport.Full
}

func payload(s, k int) []byte {
	// distinct lengths (multiples of 4) and contents per (sender, frame)
	n := 8 + 4*(s*3+k)
	b := make([]byte, n)
	for i := range b {
		b[i] = byte(0x10*(s+1) + k + i)
	}
	return b
}

func body(p params, o *sx.Obs) {
	w := &wconn{}
	conn, err := proto(p.Proto).Handshake(w)
	if err != nil {
		panic(err)
	}
	var g sx.Group
	for s := 0; s < p.Senders; s++ {
		s := s
		g.Go(fmt.Sprintf("sender%d", s), func() {
			for k := 0; k < p.Each; k++ {
				if err := conn.Send(context.Background(), &bin.Buffer{Buf: payload(s, k)}); err != nil {
					o.Log("send-error %d/%d %v", s, k, err)
				}
			}
		})
	}
	g.Wait()
	// the receiver: a fresh codec of the same protocol over the recorded byte stream
	rd := bytes.NewReader(w.buf.Bytes())
	cd := proto(p.Proto).Codec()
	if err := cd.ReadHeader(rd); err != nil {
		o.Log("recv-accept-error %v", err)
		return
	}
	for i := 0; i < p.Senders*p.Each; i++ {
		var b bin.Buffer
		if err := cd.Read(rd, &b); err != nil {
			// the error text may contain bytes of random padding: keep the observation deterministic
			o.Log("recv-error #%d", i)
			return
		}
		o.Log("recv %s", label(p, b.Buf))
	}
	if rd.Len() != 0 {
		o.Log("recv-error trailing %d bytes", rd.Len())
	}
}

// label names a received frame by the payload it equals ("s<sender>k<frame>"), or by its length when it is none of them.
func label(p params, got []byte) string {
	for s := 0; s < p.Senders; s++ {
		for k := 0; k < p.Each; k++ {
			if bytes.Equal(got, payload(s, k)) {
				return fmt.Sprintf("s%dk%d", s, k)
			}
		}
	}
	return fmt.Sprintf("unknown-len%d", len(got))
}

func check(p params, o *sx.Obs, x *vsched.Sched) kit.Result {
	if x.StepLimit {
		return kit.Result{Outcome: "step-limit", Trivial: true}
	}
	if x.Deadlock {
		return kit.Bad("stuck", "senders never finished: %v", x.Blocked)
	}
	if o.Has("send-error") || o.Has("recv-accept-error") {
		return kit.Bad("harness", "%s", o.String())
	}
	if i := o.Index("recv-error"); i >= 0 {
		return kit.Bad("stream-corrupted:"+p.Proto, "the receiver cannot read the byte stream produced by %d concurrent senders: %s", p.Senders, o.Events[i])
	}
	var got, want []string
	order := ""
	for _, e := range o.Events {
		var h string
		if n, _ := fmt.Sscanf(e, "recv %s", &h); n == 1 {
			got = append(got, h)
			order += h
		}
	}
	for s := 0; s < p.Senders; s++ {
		for k := 0; k < p.Each; k++ {
			want = append(want, fmt.Sprintf("s%dk%d", s, k))
		}
	}
	sort.Strings(got)
	sort.Strings(want)
	if fmt.Sprint(got) != fmt.Sprint(want) {
		return kit.Bad("frames-differ:"+p.Proto, "received frames are not the sent ones: got %v want %v", got, want)
	}
	// frames of one sender must stay in its order
	return kit.OKo("order=" + order)
}

func main() {
	kit.Main("C16", "exploration", func(c *kit.Ctx) {
		var scs []params
		for _, pr := range []string{"abridged", "intermediate", "padded", "full"} {
			scs = append(scs, params{pr, 2, 1}, params{pr, 3, 1}, params{pr, 2, 2})
		}
		mk := func(p params) sx.Scenario[params] {
			return sx.Scenario[params]{Name: "senders", Params: p, MaxSteps: 4000, Body: body, Check: check}
		}
		if c.Replaying() {
			sx.Explore(c, mk(scs[0]), 0, 0, 1)
			return
		}
		bound := 2
		if c.Thorough() {
			bound = 3
		}
		c.Rule("E-SCHED part: 2-3 concurrent transport.Conn.Send calls (1-2 frames each) on one real connection of each protocol over a fake net.Conn whose "+
			"Write is a scheduling point (instrumented transport + proto/codec); every schedule with <= %d preemptions; oracle: a fresh receiver of the same "+
			"protocol reads exactly the multiset of sent payloads from the recorded byte stream.", bound)
		if c.Shard < 0 {
			return
		}
		sx.Explore(c, mk(scs[c.Shard%len(scs)]), bound, 0, 1)
	})
}
