// C22: message containers, rpc_result wrappers, unencrypted messages and gzip-packed objects decode
// back to what was encoded; gzip decompression never produces more than 10 MiB and fails instead;
// malformed containers or lengths produce errors rather than panics.
package main

import (
	"bytes"
	"compress/flate"
	"encoding/binary"
	"fmt"
	"hash/crc32"
	"runtime"
	"strconv"
	"strings"
	"sync"

	"github.com/gotd/td/bin"
	"github.com/gotd/td/internal/verif/kit"
	"github.com/gotd/td/internal/verif/lib/reftl"
	"github.com/gotd/td/proto"
)

const (
	mib       = 1 << 20
	gzipLimit = 10 * mib
	// allocBound is the ceiling on bytes allocated by one GZIP.Decode of a bomb. Reading 10 MiB
	// through io.ReadAll allocates about 5x that in growth steps; reading a >=256 MiB bomb without a
	// limit allocates far beyond 16x.
	allocBound = 16 * gzipLimit
)

var idAlphabet = map[string]int64{
	"zero":   0,
	"one":    1,
	"minus1": -1,
	"min":    -1 << 63,
	"server": 0x6123456789abcd01, // a typical server message id (mod 4 == 1)
	"count":  0x0807060504030201,
}

// scribble overwrites the bytes a value was decoded from, as a caller that reuses its read buffer
// does. A decoded value that still refers to the input changes with it.
func scribble(b []byte) {
	for i := range b {
		b[i] = 0xa5 ^ byte(i)
	}
}

func payload(pattern string, n int) []byte {
	if pattern == "zero" {
		return make([]byte, n)
	}
	return kit.Pattern(pattern, n)
}

// ---------------------------------------------------------------------------------------------
// containers

type wMsg struct {
	ID      string `json:"id"`
	SeqNo   int32  `json:"seqno"`
	Size    int    `json:"size"`
	Pattern string `json:"pattern"`
}

type wContainer struct {
	Producer string `json:"producer"` // td: proto.MessageContainer.Encode; ref: reference encoder
	Msgs     []wMsg `json:"msgs"`
}

func sameMsgs(got []proto.Message, want []reftl.Msg) string {
	if len(got) != len(want) {
		return fmt.Sprintf("decoded %d messages, encoded %d", len(got), len(want))
	}
	for i := range got {
		g, w := got[i], want[i]
		if g.ID != w.ID || int32(g.SeqNo) != w.SeqNo || g.SeqNo != int(w.SeqNo) || g.Bytes != len(w.Body) || !bytes.Equal(g.Body, w.Body) {
			return fmt.Sprintf("message %d: got id=%d seqno=%d bytes=%d body(%d bytes), want id=%d seqno=%d body of %d bytes",
				i, g.ID, g.SeqNo, g.Bytes, len(g.Body), w.ID, w.SeqNo, len(w.Body))
		}
	}
	return ""
}

func evalContainer(w wContainer) kit.Result {
	var want []reftl.Msg
	over := false
	for _, m := range w.Msgs {
		id, ok := idAlphabet[m.ID]
		if !ok {
			panic("id " + m.ID)
		}
		want = append(want, reftl.Msg{ID: id, SeqNo: m.SeqNo, Body: payload(m.Pattern, m.Size)})
		if m.Size > reftl.MaxBody {
			over = true
		}
	}
	var enc []byte
	if w.Producer == "td" {
		var c proto.MessageContainer
		for _, m := range want {
			c.Messages = append(c.Messages, proto.Message{ID: m.ID, SeqNo: int(m.SeqNo), Bytes: len(m.Body), Body: m.Body})
		}
		var b bin.Buffer
		if err := c.Encode(&b); err != nil {
			if over {
				return kit.OKo("oversize-encode-rejected")
			}
			return kit.Bad("encode-error", "container with bodies <= 1 MiB does not encode: %v", err)
		}
		enc = b.Buf
	} else {
		enc = reftl.Container(want)
	}
	var dec proto.MessageContainer
	rd := &bin.Buffer{Buf: enc}
	err := dec.Decode(rd)
	if over {
		// bodies above 1 MiB are outside the statement: error or value, but no panic
		if err != nil {
			return kit.OKo("oversize-decode-rejected")
		}
		return kit.OKo("oversize-decode-accepted")
	}
	if err != nil {
		return kit.Bad("roundtrip-error", "valid container (producer %s) rejected: %v", w.Producer, err)
	}
	if d := sameMsgs(dec.Messages, want); d != "" {
		return kit.Bad("roundtrip-mismatch", "producer %s: %s", w.Producer, d)
	}
	if rd.Len() != 0 {
		return kit.Bad("roundtrip-consumption", "%d bytes left after decoding the container", rd.Len())
	}
	scribble(enc)
	if d := sameMsgs(dec.Messages, want); d != "" {
		return kit.Bad("value-aliases-input", "producer %s: decoded messages changed when the input buffer was overwritten: %s", w.Producer, d)
	}
	return kit.OKo("roundtrip:" + strconv.Itoa(len(want)))
}

// wBytes: a base encoding with one mutation, decoded as `Kind`.
type wBytes struct {
	Kind string `json:"kind"` // container | plain | result | gzip-frame
	Base string `json:"base"`
	// Mut: "none", "prefix:<n>" (keep the first n bytes), "word:<i>:<hex32le>" (replace word i),
	// "trail:<n>" (append n bytes)
	Mut string `json:"mutation"`
}

func baseBytes(kind, base string) []byte {
	b8 := kit.Pattern("count", 8)
	switch kind + "/" + base {
	case "container/empty":
		return reftl.Container(nil)
	case "container/one":
		return reftl.Container([]reftl.Msg{{ID: idAlphabet["server"], SeqNo: 1, Body: b8}})
	case "container/two":
		return reftl.Container([]reftl.Msg{{ID: idAlphabet["server"], SeqNo: 1, Body: b8[:4]}, {ID: idAlphabet["count"], SeqNo: 2, Body: kit.Pattern("ff", 12)}})
	case "container/nested":
		inner := reftl.Container([]reftl.Msg{{ID: 5, SeqNo: 3, Body: b8[:4]}})
		return reftl.Container([]reftl.Msg{{ID: 9, SeqNo: 1, Body: inner}, {ID: 13, SeqNo: 0, Body: nil}})
	case "plain/empty":
		return reftl.Plain(idAlphabet["server"], nil)
	case "plain/eight":
		return reftl.Plain(idAlphabet["server"], b8)
	case "plain/odd":
		return reftl.Plain(idAlphabet["count"], b8[:5])
	case "result/empty":
		return reftl.RPCResult(idAlphabet["server"], nil)
	case "result/eight":
		return reftl.RPCResult(idAlphabet["count"], b8)
	case "gzip-frame/small":
		return reftl.GzipPacked(reftl.Gzip(kit.Pattern("count", 40), 6))
	}
	panic("base " + kind + "/" + base)
}

func mutate(in []byte, mut string) []byte {
	f := strings.Split(mut, ":")
	out := append([]byte(nil), in...)
	switch f[0] {
	case "none":
	case "prefix":
		n, _ := strconv.Atoi(f[1])
		out = out[:n]
	case "word":
		i, _ := strconv.Atoi(f[1])
		copy(out[4*i:], kit.UnHex(f[2]))
	case "trail":
		n, _ := strconv.Atoi(f[1])
		out = append(out, kit.Pattern("ff", n)...)
	default:
		panic("mutation " + mut)
	}
	return out
}

func evalBytes(w wBytes) kit.Result {
	in := mutate(baseBytes(w.Kind, w.Base), w.Mut)
	src := append([]byte(nil), in...)
	rd := &bin.Buffer{Buf: src}
	switch w.Kind {
	case "container":
		want, n, over, st := reftl.ParseContainer(in)
		var c proto.MessageContainer
		err := c.Decode(rd)
		switch {
		case st != reftl.OK:
			if err == nil {
				cls := "accepted-" + st.String()
				if len(in) >= 8 && int32(binary.LittleEndian.Uint32(in[4:])) < 0 && binary.LittleEndian.Uint32(in) == reftl.IDContainer {
					cls = "negative-count-accepted"
				}
				return kit.Bad(cls, "container %s is %s but decoded without error into %d messages", kit.Hex(in), st, len(c.Messages))
			}
			return kit.OKo("error-" + st.String())
		case over:
			return kit.OKo("oversize")
		case err != nil:
			return kit.Bad("valid-rejected", "well-formed container %s rejected: %v", kit.Hex(in), err)
		}
		if d := sameMsgs(c.Messages, want); d != "" {
			return kit.Bad("wrong-value", "container %s: %s", kit.Hex(in), d)
		}
		if len(in)-rd.Len() != n {
			return kit.Bad("wrong-consumption", "container %s: consumed %d, encoded length %d", kit.Hex(in), len(in)-rd.Len(), n)
		}
		scribble(src)
		if d := sameMsgs(c.Messages, want); d != "" {
			return kit.Bad("value-aliases-input", "container %s: decoded messages changed when the input buffer was overwritten: %s", kit.Hex(in), d)
		}
		return kit.OKo("value")
	case "plain":
		id, data, st := reftl.ParsePlain(in)
		var u proto.UnencryptedMessage
		err := u.Decode(rd)
		if st != reftl.OK {
			if err == nil {
				return kit.Bad("accepted-"+st.String(), "plaintext message %s is %s but decoded without error", kit.Hex(in), st)
			}
			return kit.OKo("error-" + st.String())
		}
		if err != nil {
			return kit.Bad("valid-rejected", "well-formed plaintext message %s rejected: %v", kit.Hex(in), err)
		}
		if u.MessageID != id || !bytes.Equal(u.MessageData, data) {
			return kit.Bad("wrong-value", "plaintext message %s decoded to id=%d data=%x", kit.Hex(in), u.MessageID, u.MessageData)
		}
		scribble(src)
		if !bytes.Equal(u.MessageData, data) {
			return kit.Bad("value-aliases-input", "plaintext message %s: decoded data changed when the input buffer was overwritten", kit.Hex(in))
		}
		return kit.OKo("value")
	case "result":
		var r proto.Result
		err := r.Decode(rd)
		if len(in) < 12 || binary.LittleEndian.Uint32(in) != reftl.IDRPCResult {
			if err == nil {
				return kit.Bad("accepted-malformed", "rpc_result %s is short or has a foreign id but decoded without error", kit.Hex(in))
			}
			return kit.OKo("error")
		}
		if err != nil {
			return kit.Bad("valid-rejected", "well-formed rpc_result %s rejected: %v", kit.Hex(in), err)
		}
		if r.RequestMessageID != int64(binary.LittleEndian.Uint64(in[4:])) || !bytes.Equal(r.Result, in[12:]) {
			return kit.Bad("wrong-value", "rpc_result %s decoded to id=%d result=%x", kit.Hex(in), r.RequestMessageID, r.Result)
		}
		scribble(src)
		if !bytes.Equal(r.Result, in[12:]) {
			return kit.Bad("value-aliases-input", "rpc_result %s: decoded body changed when the input buffer was overwritten", kit.Hex(in))
		}
		return kit.OKo("value")
	case "gzip-frame":
		// TL framing of gzip_packed: id + string. A frame whose id is foreign or whose string is
		// short/malformed per the reference string decoder must give an error.
		var g proto.GZIP
		err := g.Decode(rd)
		bad := len(in) < 4 || binary.LittleEndian.Uint32(in) != reftl.IDGzipPacked
		if !bad {
			_, _, _, st := reftl.DecString(in[4:])
			bad = st != reftl.OK
		}
		if len(g.Data) > gzipLimit {
			return kit.Bad("produced>10MiB", "%d bytes produced", len(g.Data))
		}
		if bad && err == nil {
			return kit.Bad("accepted-malformed", "gzip_packed frame %s is short or malformed but decoded without error", kit.Hex(in))
		}
		if err != nil {
			return kit.OKo("error")
		}
		return kit.OKo("value")
	}
	panic("kind " + w.Kind)
}

// ---------------------------------------------------------------------------------------------
// results and plaintext messages

type wWrap struct {
	Kind     string `json:"kind"`     // result | plain
	Producer string `json:"producer"` // td | ref
	ID       string `json:"id"`
	Size     int    `json:"size"`
	Pattern  string `json:"pattern"`
	// Reuse: decode into a struct that already holds a longer value (both decoders reuse their slice)
	Reuse bool `json:"reuse"`
}

func evalWrap(w wWrap) kit.Result {
	id, ok := idAlphabet[w.ID]
	if !ok {
		panic("id " + w.ID)
	}
	body := payload(w.Pattern, w.Size)
	stale := kit.Pattern("stream:stale", w.Size+33)
	var enc bin.Buffer
	switch w.Kind + "/" + w.Producer {
	case "result/td":
		if err := (&proto.Result{RequestMessageID: id, Result: body}).Encode(&enc); err != nil {
			return kit.Bad("encode-error", "%v", err)
		}
	case "result/ref":
		enc.Buf = reftl.RPCResult(id, body)
	case "plain/td":
		if err := (proto.UnencryptedMessage{MessageID: id, MessageData: body}).Encode(&enc); err != nil {
			return kit.Bad("encode-error", "%v", err)
		}
	case "plain/ref":
		enc.Buf = reftl.Plain(id, body)
	default:
		panic(w.Kind + "/" + w.Producer)
	}
	var gotID int64
	var got []byte
	var err error
	src := enc.Buf
	if w.Kind == "result" {
		var r proto.Result
		if w.Reuse {
			r = proto.Result{RequestMessageID: 77, Result: stale}
		}
		err = r.Decode(&enc)
		gotID, got = r.RequestMessageID, r.Result
	} else {
		var u proto.UnencryptedMessage
		if w.Reuse {
			u = proto.UnencryptedMessage{MessageID: 77, MessageData: stale}
		}
		err = u.Decode(&enc)
		gotID, got = u.MessageID, u.MessageData
	}
	if err != nil {
		return kit.Bad("roundtrip-error", "%s (producer %s) of %d bytes rejected: %v", w.Kind, w.Producer, w.Size, err)
	}
	if gotID != id || !bytes.Equal(got, body) {
		return kit.Bad("roundtrip-mismatch", "%s (producer %s, reuse %v): id %d->%d, body %d->%d bytes", w.Kind, w.Producer, w.Reuse, id, gotID, len(body), len(got))
	}
	if enc.Len() != 0 {
		return kit.Bad("roundtrip-consumption", "%d bytes left", enc.Len())
	}
	scribble(src)
	if !bytes.Equal(got, body) {
		return kit.Bad("value-aliases-input", "%s (producer %s, reuse %v): decoded body changed when the input buffer was overwritten", w.Kind, w.Producer, w.Reuse)
	}
	return kit.OKo(w.Kind + ":roundtrip")
}

// ---------------------------------------------------------------------------------------------
// gzip (runs in worker processes under a memory limit)

type wGzip struct {
	Producer string `json:"producer"` // td: proto.GZIP.Encode; std: compress/gzip + reference framing
	Size     int    `json:"size"`     // decompressed size of one member
	Pattern  string `json:"pattern"`  // zero | count | stream:<x>
	Level    int    `json:"level,omitempty"`
	Members  int    `json:"members,omitempty"` // std only: concatenated gzip members (default 1)
	// Corrupt: "", "magic", "crc", "isize", "trunc:<n>", "trail:<n>"
	Corrupt string `json:"corrupt,omitempty"`
	// Member (std only): the gzip member is assembled by hand (RFC 1952) instead of by compress/gzip:
	// "<header>/<deflate>", header in {plain, text, extra, name, comment, hcrc, all, mtime-os} (the optional
	// header fields FTEXT, FEXTRA, FNAME, FCOMMENT, FHCRC, all of them, non-zero MTIME/XFL/OS), deflate in
	// {stored, huffman, fast, best} (compress/flate levels 0, HuffmanOnly, 1, 9).
	Member string `json:"member,omitempty"`
}

// handMember builds one RFC 1952 member around a raw deflate stream made by compress/flate.
func handMember(data []byte, header, deflate string) []byte {
	level := map[string]int{"stored": flate.NoCompression, "huffman": flate.HuffmanOnly, "fast": flate.BestSpeed, "best": flate.BestCompression}
	lv, ok := level[deflate]
	if !ok {
		panic("deflate " + deflate)
	}
	var flg byte
	mtime, xfl, osb := uint32(0), byte(0), byte(255)
	var extra, name, comment []byte
	hcrc := false
	switch header {
	case "plain":
	case "text":
		flg |= 1
	case "extra":
		extra = []byte{'A', 'p', 4, 0, 1, 2, 3, 4}
	case "name":
		name = []byte("object.tl")
	case "comment":
		comment = []byte("packed by the reference encoder")
	case "hcrc":
		hcrc = true
	case "all":
		flg |= 1
		extra, name, comment, hcrc = []byte{'A', 'p', 0, 0}, []byte("n"), []byte("c"), true
	case "mtime-os":
		mtime, xfl, osb = 1700000000, 2, 3
	default:
		panic("header " + header)
	}
	if extra != nil {
		flg |= 4
	}
	if name != nil {
		flg |= 8
	}
	if comment != nil {
		flg |= 16
	}
	if hcrc {
		flg |= 2
	}
	out := []byte{0x1f, 0x8b, 8, flg}
	out = binary.LittleEndian.AppendUint32(out, mtime)
	out = append(out, xfl, osb)
	if extra != nil {
		out = binary.LittleEndian.AppendUint16(out, uint16(len(extra)))
		out = append(out, extra...)
	}
	if name != nil {
		out = append(append(out, name...), 0)
	}
	if comment != nil {
		out = append(append(out, comment...), 0)
	}
	if hcrc {
		out = binary.LittleEndian.AppendUint16(out, uint16(crc32.ChecksumIEEE(out)))
	}
	var body bytes.Buffer
	fw, err := flate.NewWriter(&body, lv)
	if err != nil {
		panic(err)
	}
	if _, err := fw.Write(data); err != nil {
		panic(err)
	}
	if err := fw.Close(); err != nil {
		panic(err)
	}
	out = append(out, body.Bytes()...)
	out = binary.LittleEndian.AppendUint32(out, crc32.ChecksumIEEE(data))
	return binary.LittleEndian.AppendUint32(out, uint32(len(data)))
}

var (
	streamMu    sync.Mutex
	streamCache = map[string][]byte{}
)

// stdStream returns (and caches per process) the stdlib gzip stream of one member.
func stdStream(size int, pattern string, level int) []byte {
	key := fmt.Sprint(size, pattern, level)
	streamMu.Lock()
	defer streamMu.Unlock()
	if s, ok := streamCache[key]; ok {
		return s
	}
	var s []byte
	if pattern == "zero" && size > 32*mib {
		s = reftl.GzipZeros(size)
	} else {
		if level == 0 {
			level = 6
		}
		s = reftl.Gzip(payload(pattern, size), level)
	}
	if len(streamCache) > 6 {
		streamCache = map[string][]byte{}
	}
	streamCache[key] = s
	return s
}

func corrupt(stream []byte, how string) []byte {
	s := append([]byte(nil), stream...)
	f := strings.Split(how, ":")
	switch f[0] {
	case "":
	case "magic":
		s[0] ^= 0xff
	case "crc":
		s[len(s)-8] ^= 1
	case "isize":
		s[len(s)-4] ^= 1
	case "trunc":
		n, _ := strconv.Atoi(f[1])
		if n > len(s) {
			n = len(s)
		}
		s = s[:len(s)-n]
	case "trail":
		n, _ := strconv.Atoi(f[1])
		s = append(s, kit.Pattern("count", n)...)
	default:
		panic("corrupt " + how)
	}
	return s
}

func allocated() uint64 {
	var m runtime.MemStats
	runtime.ReadMemStats(&m)
	return m.TotalAlloc
}

func evalGzip(w wGzip) kit.Result {
	members := w.Members
	if members == 0 {
		members = 1
	}
	total := w.Size * members
	var frame []byte
	var want []byte // nil when too large to be worth materializing (> limit: must fail anyway)
	if total <= gzipLimit {
		one := payload(w.Pattern, w.Size)
		for i := 0; i < members; i++ {
			want = append(want, one...)
		}
	}
	if w.Producer == "td" {
		var b bin.Buffer
		if err := (proto.GZIP{Data: payload(w.Pattern, w.Size)}).Encode(&b); err != nil {
			return kit.Bad("encode-error", "GZIP.Encode of %d bytes: %v", w.Size, err)
		}
		frame = b.Buf
	} else if w.Member != "" {
		hd, df, _ := strings.Cut(w.Member, "/")
		one := handMember(payload(w.Pattern, w.Size), hd, df)
		// the hand-made member must be a gzip stream for the reference reader, else it proves nothing
		if back, err := reftl.Gunzip(one, w.Size); err != nil || !bytes.Equal(back, payload(w.Pattern, w.Size)) {
			return kit.Result{Trivial: true, Outcome: "MEMBER-NOT-GZIP"}
		}
		frame = reftl.GzipPacked(one)
	} else {
		one := stdStream(w.Size, w.Pattern, w.Level)
		var s []byte
		for i := 0; i < members; i++ {
			s = append(s, one...)
		}
		frame = reftl.GzipPacked(corrupt(s, w.Corrupt))
	}
	compressed := len(frame)
	var g proto.GZIP
	rd := &bin.Buffer{Buf: frame}
	a0 := allocated()
	err := g.Decode(rd)
	alloc := allocated() - a0
	if len(g.Data) > gzipLimit {
		return kit.Bad("produced>10MiB", "GZIP.Decode left %d bytes of decompressed data (limit 10 MiB), err=%v", len(g.Data), err)
	}
	if total >= 256*mib && alloc > allocBound {
		return kit.Bad("alloc>limit", "decoding a %d MiB bomb (%d compressed bytes) allocated %d MiB", total/mib, compressed, alloc/mib)
	}
	size := "<10MiB"
	switch {
	case total > gzipLimit:
		size = ">10MiB"
	case total == gzipLimit:
		size = "=10MiB"
	}
	lbl := size
	if members > 1 {
		lbl += ":multi"
	}
	if w.Corrupt != "" {
		// gzip-level corruption: the statement only demands no panic and the bound
		c := strings.Split(w.Corrupt, ":")[0]
		if err != nil {
			return kit.OKo("corrupt-" + c + ":error")
		}
		if bytes.Equal(g.Data, want) {
			return kit.OKo("corrupt-" + c + ":original-data")
		}
		return kit.OKo("corrupt-" + c + ":other-data")
	}
	if members > 1 {
		// concatenated members are valid gzip (RFC 1952); whether the decoder joins them is not in the statement
		if err != nil {
			return kit.OKo(lbl + ":error")
		}
		return kit.OKo(lbl + ":value")
	}
	switch {
	case total > gzipLimit:
		if err == nil {
			return kit.Bad("bomb-accepted", "payload of %d bytes (> 10 MiB) decoded without error (%d bytes returned)", total, len(g.Data))
		}
		return kit.OKo(lbl + ":error")
	case total == gzipLimit:
		if err != nil {
			return kit.OKo(lbl + ":error")
		}
	default:
		if err != nil {
			return kit.Bad("roundtrip-error", "gzip-packed payload of %d bytes (producer %s) rejected: %v", total, w.Producer, err)
		}
	}
	if !bytes.Equal(g.Data, want) {
		return kit.Bad("roundtrip-mismatch", "gzip-packed payload of %d bytes (producer %s) decoded to %d different bytes", total, w.Producer, len(g.Data))
	}
	if rd.Len() != 0 {
		return kit.Bad("roundtrip-consumption", "%d bytes left", rd.Len())
	}
	scribble(frame)
	if !bytes.Equal(g.Data, want) {
		return kit.Bad("value-aliases-input", "gzip-packed payload of %d bytes (producer %s): decoded data changed when the input buffer was overwritten", total, w.Producer)
	}
	if w.Member != "" {
		return kit.OKo(lbl + ":value:hand-made-member")
	}
	return kit.OKo(lbl + ":value")
}

// wHistory: a sequence of decodes and encodes sharing the package-level reader / writer / buffer pools.
type wHistory struct {
	// Ops: decodes valid-a | valid-b | bomb | badhdr | trunc | badcrc; encodes (proto.GZIP.Encode) enc-a | enc-b | enc-empty
	Ops []string `json:"ops"`
}

func historyPayload(op string) []byte {
	switch op {
	case "enc-a":
		return kit.Pattern("count", 3000)
	case "enc-b":
		return kit.Pattern("stream:b", 70000)
	case "enc-empty":
		return []byte{}
	}
	panic("op " + op)
}

// unpack is the reference reading of a gzip_packed frame: id, TL string, compress/gzip.
func unpack(frame []byte) ([]byte, error) {
	if len(frame) < 4 || binary.LittleEndian.Uint32(frame) != reftl.IDGzipPacked {
		return nil, fmt.Errorf("no gzip_packed id")
	}
	s, n, _, st := reftl.DecString(frame[4:])
	if st != reftl.OK || 4+n != len(frame) {
		return nil, fmt.Errorf("TL string %v, %d of %d bytes", st, 4+n, len(frame))
	}
	return reftl.Gunzip(s, gzipLimit)
}

func historyInput(op string) (frame []byte, want []byte, mustFail bool) {
	a := kit.Pattern("count", 3000)
	b := kit.Pattern("stream:b", 70000)
	switch op {
	case "valid-a":
		return reftl.GzipPacked(stdStream(3000, "count", 6)), a, false
	case "valid-b":
		return reftl.GzipPacked(stdStream(70000, "stream:b", 6)), b, false
	case "bomb":
		return reftl.GzipPacked(stdStream(64*mib, "zero", 0)), nil, true
	case "badhdr":
		return reftl.GzipPacked(corrupt(stdStream(3000, "count", 6), "magic")), nil, false
	case "trunc":
		return reftl.GzipPacked(corrupt(stdStream(70000, "stream:b", 6), "trunc:1000")), nil, false
	case "badcrc":
		return reftl.GzipPacked(corrupt(stdStream(3000, "count", 6), "crc")), nil, false
	}
	panic("op " + op)
}

func evalHistory(w wHistory) kit.Result {
	// two collections empty sync.Pool (victim cache included): every history starts from an empty reader pool
	runtime.GC()
	runtime.GC()
	// values handed out by earlier steps stay with their callers: they must not change afterwards
	type kept struct {
		step       int
		what       string
		got, want  []byte
		isEncoding bool
	}
	var held []kept
	recheck := func(now int) *kit.Result {
		for _, k := range held {
			if k.isEncoding {
				back, err := unpack(k.got)
				if err != nil || !bytes.Equal(back, k.want) {
					r := kit.Bad("earlier-encoding-changed", "the frame produced by step %d (%s) no longer unpacks to its payload after step %d (%s) (err=%v)", k.step, k.what, now, w.Ops[now], err)
					return &r
				}
			} else if !bytes.Equal(k.got, k.want) {
				r := kit.Bad("earlier-output-changed", "the data decoded by step %d (%s) changed during step %d (%s)", k.step, k.what, now, w.Ops[now])
				return &r
			}
		}
		return nil
	}
	for i, op := range w.Ops {
		if strings.HasPrefix(op, "enc-") {
			data := historyPayload(op)
			var b bin.Buffer
			if err := (proto.GZIP{Data: append([]byte(nil), data...)}).Encode(&b); err != nil {
				return kit.Bad("encode-error-after-history", "step %d (%s) after %v: %v", i, op, w.Ops[:i], err)
			}
			back, err := unpack(b.Buf)
			if err != nil {
				return kit.Bad("encoding-invalid-after-history", "step %d (%s) after %v: the frame is not a gzip_packed object for the reference reader: %v", i, op, w.Ops[:i], err)
			}
			if !bytes.Equal(back, data) {
				return kit.Bad("encoding-wrong-after-history", "step %d (%s) after %v: the frame unpacks to %d bytes that are not the %d-byte payload", i, op, w.Ops[:i], len(back), len(data))
			}
			var g proto.GZIP
			if err := g.Decode(&bin.Buffer{Buf: append([]byte(nil), b.Buf...)}); err != nil || !bytes.Equal(g.Data, data) {
				return kit.Bad("roundtrip-fails-after-history", "step %d (%s) after %v: GZIP.Decode of the frame: err=%v, %d bytes", i, op, w.Ops[:i], err, len(g.Data))
			}
			if r := recheck(i); r != nil {
				return *r
			}
			held = append(held, kept{i, op, b.Buf, data, true}, kept{i, op, g.Data, data, false})
			continue
		}
		frame, want, mustFail := historyInput(op)
		frame = append([]byte(nil), frame...)
		var g proto.GZIP
		err := g.Decode(&bin.Buffer{Buf: frame})
		scribble(frame)
		if len(g.Data) > gzipLimit {
			return kit.Bad("produced>10MiB", "step %d (%s): %d bytes produced", i, op, len(g.Data))
		}
		switch {
		case mustFail && err == nil:
			return kit.Bad("bomb-accepted", "step %d (%s) after %v decoded without error", i, op, w.Ops[:i])
		case want != nil && err != nil:
			return kit.Bad("valid-rejected-after-history", "step %d (%s) after %v rejected: %v", i, op, w.Ops[:i], err)
		case want != nil && !bytes.Equal(g.Data, want):
			return kit.Bad("wrong-data-after-history", "step %d (%s) after %v decoded to %d different bytes", i, op, w.Ops[:i], len(g.Data))
		}
		if r := recheck(i); r != nil {
			return *r
		}
		if want != nil {
			held = append(held, kept{i, op, g.Data, want, false})
		}
	}
	return kit.OKo("history:" + strconv.Itoa(len(w.Ops)))
}

// ---------------------------------------------------------------------------------------------

func main() {
	kit.Main("C22", "exploration", func(c *kit.Ctx) {
		workers := 4
		gz := kit.NewIsolatedFamily(c, "gzip", workers, 3072, evalGzip)
		hist := kit.NewIsolatedFamily(c, "gzip-history", workers, 3072, evalHistory)
		cont := kit.NewFamily(c, "container-roundtrip", evalContainer)
		byt := kit.NewFamily(c, "decode-bytes", evalBytes)
		wrap := kit.NewFamily(c, "wrapper-roundtrip", evalWrap)
		if c.Replaying() {
			return
		}
		defer gz.Close()
		defer hist.Close()
		c.Rule("Containers: every list of <=3 messages over the per-message alphabet {3 (id,seqno) pairs} x body size {0,4,12,1 MiB,1 MiB+4} (quick: lists of 3 only over sizes {0,4,1 MiB,1 MiB+4} with one (id,seqno)), " +
			"produced by MessageContainer.Encode and by a reference encoder, decoded into a fresh struct: equal messages, full consumption; bodies > 1 MiB may be rejected. " +
			"rpc_result and plaintext messages: 6 ids x sizes {0,1,3,4,5,8,1000,1 MiB} x producer {td,ref} x {fresh, reused struct}. " +
			"Malformed input: for base encodings (containers empty/one/two/nested, plaintext empty/eight/odd, rpc_result empty/eight, a small gzip_packed frame) every prefix, every word " +
			"replaced by each of a 12-word alphabet (0,1,2,3,-1,2^31-1,2^31,1 MiB,1 MiB+1,16,0x100,own id), trailing bytes; a reference parser decides ok/short/malformed: short or malformed must give an error " +
			"(class negative-count-accepted is kept separate), ok must give the reference value and consumption. " +
			"Gzip (worker processes, 3 GiB address-space limit): payload sizes {0,1,4,1000,65536,10 MiB-1,10 MiB,10 MiB+1,16 MiB,64 MiB zeros} x patterns {zero,count,incompressible stream} x producer {GZIP.Encode, compress/gzip}; " +
			"bombs of 256 MiB (thorough: also 1 GiB) of zeros; multi-member streams; corrupted streams (magic, crc, isize, truncation at every byte for a small stream, trailing bytes). " +
			"hand-assembled RFC 1952 members (checked first against compress/gzip): optional header fields {none, FTEXT, FEXTRA, FNAME, FCOMMENT, FHCRC, all, non-zero MTIME/XFL/OS} x deflate {stored, Huffman-only, level 1, level 9} x sizes {0,1000,65536}, and {none/stored, all/Huffman-only} at 10 MiB-1 and 10 MiB+1. " +
			"Oracle: < 10 MiB decodes to the payload, > 10 MiB fails, = 10 MiB either; GZIP.Data never exceeds 10 MiB; decoding a bomb >= 256 MiB allocates < 160 MiB in total. " +
			"Every successful decode of every family (container, rpc_result, plaintext, gzip) is compared a second time after the input buffer has been overwritten (class value-aliases-input): the decoded value must not refer to the bytes it was read from. " +
			"Histories of <=3 operations over decodes {valid-a, valid-b, bomb, bad header, truncated, bad crc} and GZIP.Encode of {3000 counting bytes, 70000 incompressible bytes, empty}, starting from empty reader/writer/buffer pools: a valid input decodes to its payload and " +
			"an encoding unpacks (reference TL string + compress/gzip, and GZIP.Decode) to its payload whatever preceded it, and every value or frame returned by an earlier step is unchanged after each later step. " +
			"distinct = distinct witnesses.")
		c.Assume("reference framing (container, rpc_result, gzip_packed, plaintext message) in lib/reftl from the MTProto service-message description; compress/gzip of the standard library as the reference gzip producer")
		c.Assume("gzip-level corruption (bad crc/isize/truncation/trailing bytes) and multi-member streams: the statement demands only no crash and the 10 MiB bound, both outcomes accepted")

		// ---- containers
		type pair struct {
			id  string
			seq int32
		}
		pairs := []pair{{"server", 1}, {"minus1", -1}, {"min", 1<<31 - 1}}
		sizes := []int{0, 4, 12, mib, mib + 4}
		var alpha []wMsg
		for _, p := range pairs {
			for _, s := range sizes {
				pat := "count"
				if s >= mib {
					pat = "zero"
				}
				alpha = append(alpha, wMsg{p.id, p.seq, s, pat})
			}
		}
		var cj []wContainer
		for _, prod := range []string{"td", "ref"} {
			cj = append(cj, wContainer{prod, nil})
			for _, a := range alpha {
				cj = append(cj, wContainer{prod, []wMsg{a}})
				for _, b := range alpha {
					cj = append(cj, wContainer{prod, []wMsg{a, b}})
				}
			}
			a3 := alpha
			if c.Quick() {
				a3 = nil
				for _, s := range []int{0, 4, mib, mib + 4} {
					a3 = append(a3, wMsg{"server", 1, s, "zero"})
				}
			}
			for _, a := range a3 {
				for _, b := range a3 {
					for _, d := range a3 {
						cj = append(cj, wContainer{prod, []wMsg{a, b, d}})
					}
				}
			}
		}
		kit.Parallel(len(cj), 8, func(i int) { cont.Eval(cj[i]) })

		// ---- wrappers
		var wj []wWrap
		for _, kind := range []string{"result", "plain"} {
			for _, prod := range []string{"td", "ref"} {
				for _, id := range []string{"zero", "one", "minus1", "min", "server", "count"} {
					for _, s := range []int{0, 1, 3, 4, 5, 8, 1000, mib} {
						for _, reuse := range []bool{false, true} {
							wj = append(wj, wWrap{kind, prod, id, s, "count", reuse})
						}
					}
				}
			}
		}
		kit.Parallel(len(wj), 8, func(i int) { wrap.Eval(wj[i]) })

		// ---- malformed bytes
		wordAlpha := []string{"00000000", "01000000", "02000000", "03000000", "ffffffff", "ffffff7f", "00000080", "00001000", "01001000", "10000000", "00010000", "dcf8f173"}
		for _, kb := range [][2]string{{"container", "empty"}, {"container", "one"}, {"container", "two"}, {"container", "nested"},
			{"plain", "empty"}, {"plain", "eight"}, {"plain", "odd"}, {"result", "empty"}, {"result", "eight"}, {"gzip-frame", "small"}} {
			base := baseBytes(kb[0], kb[1])
			byt.Eval(wBytes{kb[0], kb[1], "none"})
			for n := 0; n < len(base); n++ {
				byt.Eval(wBytes{kb[0], kb[1], "prefix:" + strconv.Itoa(n)})
			}
			for i := 0; i < len(base)/4; i++ {
				for _, wv := range wordAlpha {
					byt.Eval(wBytes{kb[0], kb[1], fmt.Sprintf("word:%d:%s", i, wv)})
				}
			}
			for _, n := range []int{1, 4, 16} {
				byt.Eval(wBytes{kb[0], kb[1], "trail:" + strconv.Itoa(n)})
			}
		}

		// ---- gzip
		var gj []wGzip
		for _, prod := range []string{"td", "std"} {
			for _, s := range []int{0, 1, 4, 1000, 65536, gzipLimit - 1, gzipLimit, gzipLimit + 1, 16 * mib} {
				for _, p := range []string{"zero", "count", "stream:gz"} {
					if s == 16*mib && p == "stream:gz" {
						continue // compressed size would not fit the 2^24-1 byte TL string
					}
					gj = append(gj, wGzip{Producer: prod, Size: s, Pattern: p})
				}
			}
			gj = append(gj, wGzip{Producer: prod, Size: 64 * mib, Pattern: "zero"})
		}
		for _, lvl := range []int{1, 9} {
			for _, s := range []int{1000, gzipLimit - 1, gzipLimit + 1} {
				gj = append(gj, wGzip{Producer: "std", Size: s, Pattern: "count", Level: lvl})
			}
		}
		bombs := []int{256 * mib}
		if c.Thorough() {
			bombs = append(bombs, 1024*mib)
		}
		for _, s := range bombs {
			gj = append(gj, wGzip{Producer: "std", Size: s, Pattern: "zero"})
		}
		for _, m := range []wGzip{
			{Producer: "std", Size: 1000, Pattern: "count", Members: 2},
			{Producer: "std", Size: 5 * mib, Pattern: "zero", Members: 2},
			{Producer: "std", Size: 6 * mib, Pattern: "zero", Members: 2},
			{Producer: "std", Size: 6 * mib, Pattern: "stream:gz", Members: 2},
			{Producer: "std", Size: 64 * mib, Pattern: "zero", Members: 8},
		} {
			gj = append(gj, m)
		}
		for _, hd := range []string{"plain", "text", "extra", "name", "comment", "hcrc", "all", "mtime-os"} {
		for _, df := range []string{"stored", "huffman", "fast", "best"} {
			for _, s := range []int{0, 1000, 65536} {
				gj = append(gj, wGzip{Producer: "std", Size: s, Pattern: "count", Member: hd + "/" + df})
			}
		}
	}
	for _, m := range []string{"plain/stored", "all/huffman"} {
		for _, s := range []int{gzipLimit - 1, gzipLimit + 1} {
			gj = append(gj, wGzip{Producer: "std", Size: s, Pattern: "zero", Member: m})
		}
	}
	small := stdStream(300, "count", 6)
		for _, how := range []string{"magic", "crc", "isize", "trail:1", "trail:8", "trail:64"} {
			gj = append(gj, wGzip{Producer: "std", Size: 300, Pattern: "count", Corrupt: how})
			gj = append(gj, wGzip{Producer: "std", Size: gzipLimit + 1, Pattern: "zero", Corrupt: how})
		}
		for n := 1; n <= len(small); n++ {
			gj = append(gj, wGzip{Producer: "std", Size: 300, Pattern: "count", Corrupt: "trunc:" + strconv.Itoa(n)})
		}
		kit.Parallel(len(gj), workers, func(i int) { gz.Eval(gj[i]) })

		// ---- histories over the pooled reader
		ops := []string{"valid-a", "valid-b", "bomb", "badhdr", "trunc", "badcrc", "enc-a", "enc-b", "enc-empty"}
		var hj []wHistory
		for _, a := range ops {
			hj = append(hj, wHistory{[]string{a}})
			for _, b := range ops {
				hj = append(hj, wHistory{[]string{a, b}})
				for _, d := range ops {
					hj = append(hj, wHistory{[]string{a, b, d}})
				}
			}
		}
		kit.Parallel(len(hj), workers, func(i int) { hist.Eval(hj[i]) })
	})
}
