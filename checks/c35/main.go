// C35: every entity the builder produces covers, in UTF-16 code units of the returned text,
// exactly the piece it formatted (trailing white space trimmed only at the end of the message)
// and lies within the text.
package main

import (
	"fmt"
	"runtime"
	"unicode"

	"github.com/gotd/td/internal/verif/kit"
	"github.com/gotd/td/internal/verif/lib/refformat"
	"github.com/gotd/td/telegram/message/entity"
)

type witness struct {
	API string   `json:"api"` // builder | styling
	Ops []string `json:"ops"` // see refformat.Exec
}

// wReuse: several messages built one after the other on the same entity.Builder (Complete "returns
// build result and resets builder"); every result is judged after the last message was completed.
type wReuse struct {
	API  string     `json:"api"`
	Msgs [][]string `json:"messages"`
}

// judge is the oracle: the statement, entity by entity.
func judge(w witness) kit.Result {
	r, err := refformat.Exec(w.Ops, w.API)
	if err != nil {
		return kit.Bad("harness-error", "%v", err)
	}
	return judgeRun(r)
}

// judgeReuse builds all messages on one builder and then applies the statement to every result
// as the caller holds it at that time.
func judgeReuse(w wReuse) kit.Result {
	b := &entity.Builder{}
	var runs []*refformat.Run
	base := 0
	for _, ops := range w.Msgs {
		r, err := refformat.ExecOn(b, ops, w.API, base)
		if err != nil {
			return kit.Bad("harness-error", "%v", err)
		}
		base += len(r.Pieces)
		runs = append(runs, r)
	}
	var last kit.Result
	for i, r := range runs {
		res := judgeRun(r)
		if res.Class != "" {
			which := "earlier-result"
			if i == len(runs)-1 {
				which = "last-result"
			}
			res.Class = "reuse:" + which + ":" + res.Class
			res.Msg = fmt.Sprintf("message %d of %d built on one builder %q (judged after the last Complete): %s", i+1, len(runs), w.Msgs, res.Msg)
			return res
		}
		last = res
	}
	last.Outcome = "reuse/" + last.Outcome
	return last
}

// judgeRun is the statement applied to one completed message.
func judgeRun(r *refformat.Run) kit.Result {
	res := kit.Result{Trivial: len(r.Pieces) == 0}
	if !refformat.TrimOK(r.Full, r.Text) {
		return kit.Bad("text-mismatch", "returned text %q is not the written text %q minus trailing white space", r.Text, r.Full)
	}
	L := refformat.UTF16Len(r.Text)
	byType := map[uint32]refformat.Piece{}
	for _, p := range r.Pieces {
		byType[refformat.Kinds[p.Kind].TypeID] = p
	}
	seen := map[uint32]bool{}
	clipped, emptied := 0, 0
	for _, e := range r.Entities {
		p, ok := byType[e.TypeID()]
		if !ok {
			return kit.Bad("unknown-entity", "entity %s was never requested; text %q entities %s", e.TypeName(), r.Text, refformat.Describe(r.Entities))
		}
		if seen[e.TypeID()] {
			return kit.Bad("duplicate-entity", "entity %s produced twice; entities %s", e.TypeName(), refformat.Describe(r.Entities))
		}
		seen[e.TypeID()] = true
		off, n := e.GetOffset(), e.GetLength()
		ctx := fmt.Sprintf("entity %s [%d,+%d] for the piece at UTF-16 [%d,+%d) of the untrimmed text %q; returned text %q has %d UTF-16 units; all entities: %s",
			refformat.Kinds[p.Kind].Name, off, n, p.Off, p.Len, r.Full, r.Text, L, refformat.Describe(r.Entities))
		if off < 0 || n < 0 {
			return kit.Bad("negative-range", "%s", ctx)
		}
		emptyPiece := p.Off >= L || p.Len == 0
		if emptyPiece && n == 0 && (off == p.Off || off == L) {
			// piece is empty in the returned text: the statement does not say what happens to it;
			// a zero-length entity at the piece's offset or at the end of the text is accepted
			// (dropping it altogether as well: then it is not in r.Entities).
			emptied++
			continue
		}
		if off+n > L {
			if off == p.Off && n == p.Len {
				// right for the untrimmed text, but the text was trimmed and this entity was not clamped
				which := "earlier-entity" // nested / overlapping entity created before the last block
				for _, k := range r.LastGroup {
					if k == p.Kind {
						which = "last-block-entity" // the builder's own rule covers it, yet it was skipped
					}
				}
				return kit.Bad("beyond-text:not-clamped-after-trim:"+which, "%s", ctx)
			}
			return kit.Bad("beyond-text:other", "%s", ctx)
		}
		if emptyPiece {
			return kit.Bad("wrong-range:empty-piece", "%s", ctx)
		}
		end := p.Off + p.Len
		if end > L {
			end = L
			clipped++
		}
		if off != p.Off || n != end-p.Off {
			class := "wrong-range:offset"
			switch {
			case off == p.Off && n < end-p.Off:
				class = "wrong-range:shortened" // although the piece does not reach into trimmed space that far
			case off == p.Off:
				class = "wrong-range:too-long"
			}
			return kit.Bad(class, "expected [%d,+%d]: %s", p.Off, end-p.Off, ctx)
		}
	}
	trim := "none"
	if len(r.Text) < len(r.Full) {
		trim = "trimmed"
	} else if t := []rune(r.Full); len(t) > 0 && unicode.IsSpace(t[len(t)-1]) {
		trim = "trailing-ws-kept"
	}
	res.Outcome = fmt.Sprintf("%s/entities=%d/clipped=%v/emptied=%v", trim, min(len(r.Entities), 3), clipped > 0, emptied > 0)
	return res
}

// strings of the alphabet: ASCII, white space (1-byte, newline, 3-byte U+2003), 2-byte BMP,
// astral (2 UTF-16 units), combining mark, trailing white space after BMP and after astral.
var (
	allStrings = []string{"a", " ", "\u00e9", "\U0001F600", "a ", "\n", "e\u0301", "\U0001F600\u2003"}
	rawStrings = []string{"a", " "}
	twoStrings = []string{"a", "a ", "\U0001F600\u2003"}
)

func alphabet() []string {
	var ops []string
	for _, s := range allStrings {
		ops = append(ops, "P:"+s, "F:"+s)
	}
	for _, s := range rawStrings {
		ops = append(ops, "W:"+s)
	}
	for _, s := range twoStrings {
		ops = append(ops, "G:"+s)
	}
	ops = append(ops, writerOps...)
	return append(ops, "O", "A", "B", "S")
}

// the other writers of the builder: io.Writer (the one the HTML and Markdown parsers call), WriteRune, WriteByte
var writerOps = []string{"Y:\U0001F600\u2003", "Y:a ", "R:\U0001F600\u2003", "Z:a "}

// operations of the earlier messages of a reuse history: what they leave behind in the builder
// (stale utf8 lengths, lastFormatIndex, entity capacity) is decided by the number of entities, the byte
// offsets and whether the message was trimmed.
var earlierOps = []string{"P:a", "P:\U0001F600\u2003", "F:a", "F:a ", "F:\U0001F600\u2003", "G:a ", "Y:\U0001F600\u2003", "O", "A", "S"}

// boundary characters of the UTF-8 / UTF-16 encodings (1|2, 2|3, 3|4 bytes; last before and first after the
// surrogate range; last BMP, first and last astral code point) and every kind of Unicode white space by
// encoded size (ASCII controls, 2-byte U+0085 U+00A0, 3-byte U+1680 U+2028 U+3000) next to those of the alphabet.
var (
	boundaryChars = []string{"\u007f", "\u0080", "\u07ff", "\u0800", "\ud7ff", "\ue000", "\ufffd", "\uffff", "\U00010000", "\U0010FFFF"}
	spaces        = []string{" ", "\n", "\t", "\r", "\v", "\f", "\u0085", "\u00a0", "\u1680", "\u2003", "\u2028", "\u3000"}
)

// boundaryCases: templates that put every boundary character before, inside and at the end of a formatted
// piece, and every ordered pair of white space characters at the end of a nested last block.
func boundaryCases(emit func([]string)) {
	for _, x := range boundaryChars {
		for _, y := range boundaryChars {
			emit([]string{"P:" + x, "F:" + y})
			emit([]string{"F:" + x + y, "Y:" + x, "R:" + y, "F:" + x})
			emit([]string{"O", "Y:" + x, "F:" + y + " ", "A"})
		}
	}
	for _, c := range append([]string{"a"}, boundaryChars...) {
		for _, w1 := range spaces {
			for _, w2 := range spaces {
				emit([]string{"O", "F:" + c + w1 + w2, "A"})
				emit([]string{"F:" + c + w1, "F:" + w2})
			}
		}
	}
}

// sequences returns every valid operation sequence of length lo..hi.
func sequences(alpha []string, lo, hi int) [][]string {
	var out [][]string
	for n := lo; n <= hi; n++ {
		enumerate(alpha, n, func(o []string) { out = append(out, o) })
	}
	return out
}

// enumerate calls emit for every valid operation sequence of exactly the given length.
func enumerate(alpha []string, length int, emit func([]string)) {
	var rec func(prefix []string, open, kinds int)
	rec = func(prefix []string, open, kinds int) {
		if len(prefix) == length {
			emit(append([]string(nil), prefix...))
			return
		}
		for _, op := range alpha {
			o, k := open, kinds
			switch op[0] {
			case 'O':
				o++
			case 'A':
				if open < 1 {
					continue
				}
				o--
				k++
			case 'B': // differs from A only with two or more open tokens
				if open < 2 {
					continue
				}
				o--
				k++
			case 'F':
				k++
			case 'G':
				k += 2
			}
			if k > len(refformat.Kinds) {
				continue
			}
			rec(append(prefix, op), o, k)
		}
	}
	rec(nil, 0, 0)
}

func main() {
	kit.Main("C35", "exploration", func(c *kit.Ctx) {
		fam := kit.NewFamily(c, "ops", judge)
		reuse := kit.NewFamily(c, "reuse", judgeReuse)
		if c.Replaying() {
			return
		}
		alpha := alphabet()
		bDepth, sDepth := 4, 3
		maxMsgs, lastDepth := 2, 2
		if c.Thorough() {
			bDepth, sDepth = 5, 4
			maxMsgs, lastDepth = 3, 3
		}
		c.Rule("Every valid sequence of 1..%d (API styling: 1..%d) builder operations over the %d-operation alphabet "+
			"{Plain, Format with one kind} x strings %q, raw WriteString x %q, Format with two kinds x %q, the other writers "+
			"(Y = io.Writer Write as the HTML/Markdown parsers call it, R = WriteRune per rune, Z = WriteByte per ASCII byte) %q, Token open, "+
			"Token.Apply of the innermost / outermost open token (nested, adjacent and overlapping formatting), Builder.ShrinkPreCode "+
			"(called by the HTML/Markdown formatters after parsing; no Pre entity is ever present so it may not change any range), "+
			"run against the real entity.Builder directly and through styling.Perform, then Builder.Complete. "+
			"The reference (unicode/utf16 only) computes the untrimmed text and each piece's UTF-16 range; every piece "+
			"has its own entity type so each returned entity identifies its piece. Oracle = the statement: returned text is "+
			"the written text minus trailing white space only; each returned entity has exactly its piece's range clipped "+
			"at the end of the returned text and lies within it (pieces left empty by trimming: dropped or zero-length accepted; "+
			"missing entities are not judged). Sequences without formatted piece are trivial. "+
			"boundary (same family, both APIs): templates placing every ordered pair of the encoding-boundary characters %q before / inside / at the end of "+
			"formatted pieces and through every writer, and every ordered pair of the white space characters %q at the end of a nested last block. "+
			"reuse: %d..%d messages built one after the other on ONE builder (Complete resets it): earlier messages = every valid sequence of 0..2 operations "+
			"over %q, last message = every valid sequence of 1..%d operations of the full alphabet (with three messages the middle one has 0..1 operations, the last 1..2), both APIs; "+
			"the same oracle is applied to every result after the last Complete, i.e. to what the caller holds then (entity types differ "+
			"between the messages, so an entity showing up in another message's result is an unknown entity).",
			bDepth, sDepth, len(alpha), allStrings, rawStrings, twoStrings, writerOps, boundaryChars, spaces, 2, maxMsgs, earlierOps, lastDepth)
		c.Assume("unicode/utf16 and unicode.IsSpace of the standard library define UTF-16 length and white space; invalid UTF-8 is out of scope (no UTF-16 length)")
		c.Set("alphabet_ops", len(alpha))
		c.Set("depth_builder", bDepth)
		c.Set("depth_styling", sDepth)
		for _, api := range []struct {
			name  string
			depth int
		}{{"builder", bDepth}, {"styling", sDepth}} {
			// shortest sequences first and in a fixed order (so that the recorded witnesses are the
			// minimal ones and the same on every run); only the longest length is evaluated in parallel.
			for length := 1; length <= api.depth; length++ {
				workers := 1
				if length >= 5 {
					workers = runtime.NumCPU()
				}
				var batch [][]string
				flush := func() {
					b := batch
					kit.Parallel(len(b), workers, func(i int) { fam.Eval(witness{API: api.name, Ops: b[i]}) })
					batch = batch[:0]
				}
				enumerate(alpha, length, func(ops []string) {
					batch = append(batch, ops)
					if len(batch) >= 1<<16 {
						flush()
					}
				})
				flush()
			}
			if c.Expired() {
				c.NotExhaustive("time budget hit after API %s", api.name)
				break
			}
		}
		// boundary characters and white space classes (family "ops": same witness, same oracle)
		for _, api := range []string{"builder", "styling"} {
			boundaryCases(func(ops []string) { fam.Eval(witness{API: api, Ops: ops}) })
		}
		// reuse histories, shortest first
		earlier := sequences(earlierOps, 0, 2)
		c.Set("reuse_earlier_messages", len(earlier))
		for _, api := range []string{"builder", "styling"} {
			if c.Expired() {
				c.NotExhaustive("time budget hit before the reuse histories of API %s", api)
				break
			}
			lasts := sequences(alpha, 1, lastDepth)
			var ws []wReuse
			for _, l := range lasts {
				for _, e := range earlier {
					ws = append(ws, wReuse{API: api, Msgs: [][]string{e, l}})
				}
			}
			if maxMsgs >= 3 {
				mids := sequences(earlierOps, 0, 1)
				for _, l := range sequences(alpha, 1, 2) {
					for _, m := range mids {
						for _, e := range earlier {
							ws = append(ws, wReuse{API: api, Msgs: [][]string{e, m, l}})
						}
					}
				}
			}
			// the first 4096 in a fixed order (minimal stable witnesses), the rest in parallel
			head := min(len(ws), 4096)
			for i := 0; i < head; i++ {
				reuse.Eval(ws[i])
			}
			rest := ws[head:]
			kit.Parallel(len(rest), runtime.NumCPU(), func(i int) { reuse.Eval(rest[i]) })
		}
	})
}
