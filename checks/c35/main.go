// C35: every entity the builder produces covers, in UTF-16 code units of the returned text,
// exactly the piece it formatted (trailing white space trimmed only at the end of the message)
// and lies within the text.
package main

import (
	"fmt"
	"runtime"
	"unicode"

	"github.com/gotd/td/internal/verif/kit"
	"github.com/gotd/td/internal/verif/lib/refformat"
)

type witness struct {
	API string   `json:"api"` // builder | styling
	Ops []string `json:"ops"` // see refformat.Exec
}

// judge is the oracle: the statement, entity by entity.
func judge(w witness) kit.Result {
	r, err := refformat.Exec(w.Ops, w.API)
	if err != nil {
		return kit.Bad("harness-error", "%v", err)
	}
	res := kit.Result{Trivial: len(r.Pieces) == 0}
	if !refformat.TrimOK(r.Full, r.Text) {
		return kit.Bad("text-mismatch", "returned text %q is not the written text %q minus trailing white space", r.Text, r.Full)
	}
	L := refformat.UTF16Len(r.Text)
	byType := map[uint32]refformat.Piece{}
	for _, p := range r.Pieces {
		byType[refformat.Kinds[p.Kind].TypeID] = p
	}
	seen := map[uint32]bool{}
	clipped, emptied := 0, 0
	for _, e := range r.Entities {
		p, ok := byType[e.TypeID()]
		if !ok {
			return kit.Bad("unknown-entity", "entity %s was never requested; text %q entities %s", e.TypeName(), r.Text, refformat.Describe(r.Entities))
		}
		if seen[e.TypeID()] {
			return kit.Bad("duplicate-entity", "entity %s produced twice; entities %s", e.TypeName(), refformat.Describe(r.Entities))
		}
		seen[e.TypeID()] = true
		off, n := e.GetOffset(), e.GetLength()
		ctx := fmt.Sprintf("entity %s [%d,+%d] for the piece at UTF-16 [%d,+%d) of the untrimmed text %q; returned text %q has %d UTF-16 units; all entities: %s",
			refformat.Kinds[p.Kind].Name, off, n, p.Off, p.Len, r.Full, r.Text, L, refformat.Describe(r.Entities))
		if off < 0 || n < 0 {
			return kit.Bad("negative-range", "%s", ctx)
		}
		emptyPiece := p.Off >= L || p.Len == 0
		if emptyPiece && n == 0 && (off == p.Off || off == L) {
			// piece is empty in the returned text: the statement does not say what happens to it;
			// a zero-length entity at the piece's offset or at the end of the text is accepted
			// (dropping it altogether as well: then it is not in r.Entities).
			emptied++
			continue
		}
		if off+n > L {
			if off == p.Off && n == p.Len {
				// right for the untrimmed text, but the text was trimmed and this entity was not clamped
				which := "earlier-entity" // nested / overlapping entity created before the last block
				for _, k := range r.LastGroup {
					if k == p.Kind {
						which = "last-block-entity" // the builder's own rule covers it, yet it was skipped
					}
				}
				return kit.Bad("beyond-text:not-clamped-after-trim:"+which, "%s", ctx)
			}
			return kit.Bad("beyond-text:other", "%s", ctx)
		}
		if emptyPiece {
			return kit.Bad("wrong-range:empty-piece", "%s", ctx)
		}
		end := p.Off + p.Len
		if end > L {
			end = L
			clipped++
		}
		if off != p.Off || n != end-p.Off {
			class := "wrong-range:offset"
			switch {
			case off == p.Off && n < end-p.Off:
				class = "wrong-range:shortened" // although the piece does not reach into trimmed space that far
			case off == p.Off:
				class = "wrong-range:too-long"
			}
			return kit.Bad(class, "expected [%d,+%d]: %s", p.Off, end-p.Off, ctx)
		}
	}
	trim := "none"
	if len(r.Text) < len(r.Full) {
		trim = "trimmed"
	} else if t := []rune(r.Full); len(t) > 0 && unicode.IsSpace(t[len(t)-1]) {
		trim = "trailing-ws-kept"
	}
	res.Outcome = fmt.Sprintf("%s/entities=%d/clipped=%v/emptied=%v", trim, min(len(r.Entities), 3), clipped > 0, emptied > 0)
	return res
}

// strings of the alphabet: ASCII, white space (1-byte, newline, 3-byte U+2003), 2-byte BMP,
// astral (2 UTF-16 units), combining mark, trailing white space after BMP and after astral.
var (
	allStrings = []string{"a", " ", "\u00e9", "\U0001F600", "a ", "\n", "e\u0301", "\U0001F600\u2003"}
	rawStrings = []string{"a", " "}
	twoStrings = []string{"a", "a ", "\U0001F600\u2003"}
)

func alphabet() []string {
	var ops []string
	for _, s := range allStrings {
		ops = append(ops, "P:"+s, "F:"+s)
	}
	for _, s := range rawStrings {
		ops = append(ops, "W:"+s)
	}
	for _, s := range twoStrings {
		ops = append(ops, "G:"+s)
	}
	return append(ops, "O", "A", "B", "S")
}

// enumerate calls emit for every valid operation sequence of exactly the given length.
func enumerate(alpha []string, length int, emit func([]string)) {
	var rec func(prefix []string, open, kinds int)
	rec = func(prefix []string, open, kinds int) {
		if len(prefix) == length {
			emit(append([]string(nil), prefix...))
			return
		}
		for _, op := range alpha {
			o, k := open, kinds
			switch op[0] {
			case 'O':
				o++
			case 'A':
				if open < 1 {
					continue
				}
				o--
				k++
			case 'B': // differs from A only with two or more open tokens
				if open < 2 {
					continue
				}
				o--
				k++
			case 'F':
				k++
			case 'G':
				k += 2
			}
			if k > len(refformat.Kinds) {
				continue
			}
			rec(append(prefix, op), o, k)
		}
	}
	rec(nil, 0, 0)
}

func main() {
	kit.Main("C35", "exploration", func(c *kit.Ctx) {
		fam := kit.NewFamily(c, "ops", judge)
		if c.Replaying() {
			return
		}
		alpha := alphabet()
		bDepth, sDepth := 4, 3
		if c.Thorough() {
			bDepth, sDepth = 5, 4
		}
		c.Rule("Every valid sequence of 1..%d (API styling: 1..%d) builder operations over the %d-operation alphabet "+
			"{Plain, Format with one kind} x strings %q, raw WriteString x %q, Format with two kinds x %q, Token open, "+
			"Token.Apply of the innermost / outermost open token (nested, adjacent and overlapping formatting), Builder.ShrinkPreCode "+
			"(called by the HTML/Markdown formatters after parsing; no Pre entity is ever present so it may not change any range), "+
			"run against the real entity.Builder directly and through styling.Perform, then Builder.Complete. "+
			"The reference (unicode/utf16 only) computes the untrimmed text and each piece's UTF-16 range; every piece "+
			"has its own entity type so each returned entity identifies its piece. Oracle = the statement: returned text is "+
			"the written text minus trailing white space only; each returned entity has exactly its piece's range clipped "+
			"at the end of the returned text and lies within it (pieces left empty by trimming: dropped or zero-length accepted; "+
			"missing entities are not judged). Sequences without formatted piece are trivial.",
			bDepth, sDepth, len(alpha), allStrings, rawStrings, twoStrings)
		c.Assume("unicode/utf16 and unicode.IsSpace of the standard library define UTF-16 length and white space; invalid UTF-8 is out of scope (no UTF-16 length)")
		c.Set("alphabet_ops", len(alpha))
		c.Set("depth_builder", bDepth)
		c.Set("depth_styling", sDepth)
		for _, api := range []struct {
			name  string
			depth int
		}{{"builder", bDepth}, {"styling", sDepth}} {
			// shortest sequences first and in a fixed order (so that the recorded witnesses are the
			// minimal ones and the same on every run); only the longest length is evaluated in parallel.
			for length := 1; length <= api.depth; length++ {
				workers := 1
				if length >= 5 {
					workers = runtime.NumCPU()
				}
				var batch [][]string
				flush := func() {
					b := batch
					kit.Parallel(len(b), workers, func(i int) { fam.Eval(witness{API: api.name, Ops: b[i]}) })
					batch = batch[:0]
				}
				enumerate(alpha, length, func(ops []string) {
					batch = append(batch, ops)
					if len(batch) >= 1<<16 {
						flush()
					}
				})
				flush()
			}
			if c.Expired() {
				c.NotExhaustive("time budget hit after API %s", api.name)
				break
			}
		}
	})
}
