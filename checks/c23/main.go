// C23: whatever bytes arrive inside an authenticated message, mtproto.Conn handles them without
// panicking, and results are only routed to the request whose message id they name.
package main

import (
	"bytes"
	"context"
	"encoding/binary"
	"errors"
	"fmt"
	"os"
	"path/filepath"
	"sort"
	"strconv"
	"strings"
	"sync"
	"time"

	"github.com/gotd/neo"

	"github.com/gotd/td/bin"
	"github.com/gotd/td/internal/verif/kit"
	"github.com/gotd/td/internal/verif/lib/reftl"
	"github.com/gotd/td/mt"
	"github.com/gotd/td/mtproto"
	"github.com/gotd/td/proto"
	"github.com/gotd/td/rpc"
	"github.com/gotd/td/tmap"
)

const (
	unixNow = 1700000000
	// pending requests (client message ids: divisible by 4)
	idA = int64(unixNow)<<32 | 0x1000
	idB = int64(unixNow)<<32 | 0x2000
	// a request id that is not pending
	idC = int64(unixNow)<<32 | 0x3000
	// message id of the incoming (server) message
	serverMsgID = int64(unixNow)<<32 | 0x4001
	pingP       = int64(0x1111111111111111) // a ping that is waited for
	pingQ       = int64(0x2222222222222222)
	gzipLimit   = 10 << 20
)

var ids = map[string]int64{"A": idA, "B": idB, "C": idC}

func corpusDir() string {
	repo := os.Getenv("VERIF_REPO")
	if repo == "" {
		repo = "/repo"
	}
	return filepath.Join(repo, "_fuzz", "handle_message", "corpus")
}

// ---------------------------------------------------------------------------------------------
// payload construction (reference encoders only)

func rpcError(code int32, msg string) []byte {
	return reftl.String(reftl.U32(reftl.U32(nil, reftl.IDRPCError), uint32(code)), []byte(msg))
}

func pong(msgID, pingID int64) []byte {
	return reftl.U64(reftl.U64(reftl.U32(nil, reftl.IDPong), uint64(msgID)), uint64(pingID))
}

func object() []byte { return reftl.U32(nil, reftl.IDBoolTrue) }

func bigObject() []byte {
	// vector<long> of 64 counting longs: an ordinary result object
	b := reftl.VectorHeader(nil, 64)
	for i := 0; i < 64; i++ {
		b = reftl.U64(b, uint64(i)*0x0101010101010101)
	}
	return b
}

func gz(b []byte) []byte { return reftl.GzipPacked(reftl.Gzip(b, 6)) }

func badMsg(id int64, code int32) []byte {
	return reftl.U32(reftl.U32(reftl.U64(reftl.U32(nil, reftl.IDBadMsg), uint64(id)), 5), uint32(code))
}

func badSalt(id int64) []byte {
	return reftl.U64(reftl.U32(reftl.U32(reftl.U64(reftl.U32(nil, reftl.IDBadSalt), uint64(id)), 5), 48), 0x0102030405060708)
}

func futureSalts(count uint32, actual int) []byte {
	b := reftl.U32(reftl.U32(reftl.U64(reftl.U32(nil, reftl.IDFutureSlts), uint64(idC)), unixNow), count)
	for i := 0; i < actual; i++ {
		b = reftl.U64(reftl.U32(reftl.U32(b, uint32(unixNow+i*3600)), uint32(unixNow+(i+1)*3600)), uint64(0x5a17<<16|i))
	}
	return b
}

func acks(count uint32, list ...int64) []byte {
	b := reftl.VectorHeader(reftl.U32(nil, reftl.IDMsgsAck), count)
	for _, id := range list {
		b = reftl.U64(b, uint64(id))
	}
	return b
}

var bases = map[string]func() []byte{
	"empty":   func() []byte { return nil },
	"short3":  func() []byte { return []byte{0xdc, 0xf8, 0xf1} },
	"unknown": func() []byte { return reftl.U64(reftl.U32(nil, 0xdeadbeef), 7) },
	"update":  func() []byte { return reftl.U32(nil, 0xe317af7e) }, // updatesTooLong: goes to the handler
	"session": func() []byte {
		return reftl.U64(reftl.U64(reftl.U64(reftl.U32(nil, reftl.IDNewSession), uint64(serverMsgID)), 99), 0x1234)
	},
	"session-old": func() []byte {
		return reftl.U64(reftl.U64(reftl.U64(reftl.U32(nil, reftl.IDNewSession), uint64(int64(unixNow-100000)<<32|1)), 99), 0x1234)
	},
	"session-zero": func() []byte { return reftl.U64(reftl.U64(reftl.U64(reftl.U32(nil, reftl.IDNewSession), 0), 0), 0) },
	"badmsg:A:16":  func() []byte { return badMsg(idA, 16) },
	"badmsg:A:48":  func() []byte { return badMsg(idA, 48) },
	"badmsg:A:999": func() []byte { return badMsg(idA, 999) },
	"badmsg:B:33":  func() []byte { return badMsg(idB, 33) },
	"badmsg:C:16":  func() []byte { return badMsg(idC, 16) },
	"badsalt:A":    func() []byte { return badSalt(idA) },
	"badsalt:C":    func() []byte { return badSalt(idC) },
	"salts:0":      func() []byte { return futureSalts(0, 0) },
	"salts:2":      func() []byte { return futureSalts(2, 2) },
	"salts:dup":    func() []byte { b := futureSalts(2, 1); return append(b, b[len(b)-16:]...) },
	"salts:big":    func() []byte { return futureSalts(1<<31-1, 1) },
	"salts:neg":    func() []byte { return futureSalts(0xffffffff, 1) },
	"pong:P":       func() []byte { return pong(idA, pingP) },
	"pong:Q":       func() []byte { return pong(idA, pingQ) },
	"ack:none":     func() []byte { return acks(0) },
	"ack:A":        func() []byte { return acks(1, idA) },
	"ack:AB":       func() []byte { return acks(2, idA, idB) },
	"ack:AA":       func() []byte { return acks(2, idA, idA) },
	"ack:C":        func() []byte { return acks(1, idC) },
	"ack:big":      func() []byte { return acks(1<<31-1, idA) },
	"ack:neg":      func() []byte { return acks(0xffffffff, idA) },
	"detailed": func() []byte {
		return reftl.U32(reftl.U32(reftl.U64(reftl.U64(reftl.U32(nil, reftl.IDMsgDetInfo), uint64(idA)), uint64(serverMsgID)), 12), 0)
	},
	"newdetailed": func() []byte {
		return reftl.U32(reftl.U32(reftl.U64(reftl.U32(nil, reftl.IDMsgNewDet), uint64(serverMsgID)), 12), 0)
	},
	"res:A:obj":     func() []byte { return reftl.RPCResult(idA, object()) },
	"res:B:obj":     func() []byte { return reftl.RPCResult(idB, bigObject()) },
	"res:C:obj":     func() []byte { return reftl.RPCResult(idC, object()) },
	"res:A:empty":   func() []byte { return reftl.RPCResult(idA, nil) },
	"res:A:err":     func() []byte { return reftl.RPCResult(idA, rpcError(420, "FLOOD_WAIT_3")) },
	"res:B:err":     func() []byte { return reftl.RPCResult(idB, rpcError(-503, "Timeout")) },
	"res:C:err":     func() []byte { return reftl.RPCResult(idC, rpcError(400, "X")) },
	"res:A:gzobj":   func() []byte { return reftl.RPCResult(idA, gz(bigObject())) },
	"res:C:gzobj":   func() []byte { return reftl.RPCResult(idC, gz(bigObject())) },
	"res:A:gzerr":   func() []byte { return reftl.RPCResult(idA, gz(rpcError(500, "INTERNAL"))) },
	"res:A:gzempty": func() []byte { return reftl.RPCResult(idA, gz(nil)) },
	"res:A:gzgz":    func() []byte { return reftl.RPCResult(idA, gz(gz(object()))) },
	"res:A:gzbomb":  func() []byte { return reftl.RPCResult(idA, reftl.GzipPacked(reftl.GzipZeros(64<<20))) },
	"res:A:pong":    func() []byte { return reftl.RPCResult(idA, pong(idA, pingP)) },
	"res:A:gzpong":  func() []byte { return reftl.RPCResult(idA, gz(pong(idA, pingP))) },
	"res:A:res:B":   func() []byte { return reftl.RPCResult(idA, reftl.RPCResult(idB, object())) },
	"res:A:cont":    func() []byte { return reftl.RPCResult(idA, cont(reftl.RPCResult(idB, object()))) },
	"res:A:badmsgB": func() []byte { return reftl.RPCResult(idA, badMsg(idB, 16)) },
	"gzbomb":        func() []byte { return reftl.GzipPacked(reftl.GzipZeros(64 << 20)) },
}

var baseNames []string

func init() {
	for n := range bases {
		baseNames = append(baseNames, n)
	}
	sort.Strings(baseNames)
}

func cont(bodies ...[]byte) []byte {
	var m []reftl.Msg
	for i, b := range bodies {
		m = append(m, reftl.Msg{ID: serverMsgID + int64(4*i) + 4, SeqNo: int32(2*i + 1), Body: b})
	}
	return reftl.Container(m)
}

var (
	corpusMu    sync.Mutex
	corpusCache = map[string][]byte{}
)

func baseBytes(name string) []byte {
	if f, ok := strings.CutPrefix(name, "corpus:"); ok {
		if strings.ContainsAny(f, "/\\") {
			panic("bad corpus name")
		}
		corpusMu.Lock()
		defer corpusMu.Unlock()
		if b, ok := corpusCache[f]; ok {
			return b
		}
		b, err := os.ReadFile(filepath.Join(corpusDir(), f))
		if err != nil {
			panic(err)
		}
		corpusCache[f] = b
		return b
	}
	f, ok := bases[name]
	if !ok {
		panic("unknown base " + name)
	}
	return f()
}

// wPayload describes one payload: base message, cut, wrappers (applied left to right, innermost
// first), cut of the wrapped payload. Cut values are the number of bytes kept, -1 = all.
type wPayload struct {
	Base     string   `json:"base"`
	CutInner int      `json:"cut_inner"`
	Wrap     []string `json:"wrap,omitempty"` // gzip | cont | pair:<base> | rpair:<base> | res:A|B|C
	CutOuter int      `json:"cut_outer"`
	// Pending: which requests are in flight, "" = A and B, "A" = only A
	Pending string `json:"pending,omitempty"`
}

func cut(b []byte, n int) []byte {
	if n < 0 || n > len(b) {
		return b
	}
	return b[:n]
}

func build(w wPayload) []byte {
	b := cut(baseBytes(w.Base), w.CutInner)
	for _, op := range w.Wrap {
		switch {
		case op == "gzip":
			b = gz(b)
		case op == "cont":
			b = cont(b)
		case strings.HasPrefix(op, "pair:"):
			b = cont(b, baseBytes(op[5:]))
		case strings.HasPrefix(op, "rpair:"):
			b = cont(baseBytes(op[6:]), b)
		case strings.HasPrefix(op, "res:"):
			b = reftl.RPCResult(ids[op[4:]], b)
		default:
			panic("wrap " + op)
		}
	}
	return cut(b, w.CutOuter)
}

// ---------------------------------------------------------------------------------------------
// reference walk: which request ids does the payload name, with which result body / error

type named struct {
	id   int64
	kind string // result | error
	body []byte
}

type walker struct {
	out []named
	// pings: ping ids named by the well-formed pongs of the payload (top level, in containers, gzip-packed, or as an rpc_result body)
	pings []int64
	// uncertain: the payload contains a gzip stream that compress/gzip rejects or that inflates to
	// 10 MiB or more; what a decoder routes from it is not judged.
	uncertain bool
	nodes     int
}

func (w *walker) gunzip(frame []byte) ([]byte, bool) {
	s, _, _, st := reftl.DecString(frame)
	if st != reftl.OK {
		return nil, false
	}
	data, err := reftl.Gunzip(s, gzipLimit)
	if err != nil || len(data) >= gzipLimit {
		w.uncertain = true
		return nil, false
	}
	return data, true
}

func (w *walker) walk(b []byte) {
	w.nodes++
	if len(b) < 4 || w.nodes > 2000000 {
		if w.nodes > 2000000 {
			w.uncertain = true
		}
		return
	}
	switch binary.LittleEndian.Uint32(b) {
	case reftl.IDContainer:
		if len(b) < 8 {
			return
		}
		n := int32(binary.LittleEndian.Uint32(b[4:]))
		off := 8
		for i := int32(0); i < n; i++ {
			if len(b)-off < 16 {
				return
			}
			l := int32(binary.LittleEndian.Uint32(b[off+12:]))
			off += 16
			if l < 0 || len(b)-off < int(l) {
				return
			}
			w.walk(b[off : off+int(l)])
			off += int(l)
		}
	case reftl.IDGzipPacked:
		if data, ok := w.gunzip(b[4:]); ok {
			w.walk(data)
		}
	case reftl.IDRPCResult:
		if len(b) < 12 {
			return
		}
		id := int64(binary.LittleEndian.Uint64(b[4:]))
		body := b[12:]
		if len(body) >= 4 && binary.LittleEndian.Uint32(body) == reftl.IDGzipPacked {
			data, ok := w.gunzip(body[4:])
			if !ok {
				return
			}
			body = data
		}
		if len(body) < 4 {
			return
		}
		switch binary.LittleEndian.Uint32(body) {
		case reftl.IDRPCError:
			w.out = append(w.out, named{id, "error", nil})
		case reftl.IDPong:
			if len(body) >= 20 {
				w.pings = append(w.pings, int64(binary.LittleEndian.Uint64(body[12:])))
			}
		default:
			w.out = append(w.out, named{id, "result", body})
		}
	case reftl.IDPong:
		if len(b) >= 20 {
			w.pings = append(w.pings, int64(binary.LittleEndian.Uint64(b[12:])))
		}
	case reftl.IDBadMsg, reftl.IDBadSalt:
		if len(b) >= 12 {
			w.out = append(w.out, named{int64(binary.LittleEndian.Uint64(b[4:])), "error", nil})
		}
	}
}

// ---------------------------------------------------------------------------------------------
// the connection under test

type recorder struct {
	mu    sync.Mutex
	calls [][]byte
}

func (r *recorder) Decode(b *bin.Buffer) error {
	r.mu.Lock()
	r.calls = append(r.calls, append([]byte(nil), b.Buf...))
	r.mu.Unlock()
	return nil
}

type nopEncoder struct{}

func (nopEncoder) Encode(b *bin.Buffer) error {
	b.PutID(mt.PingRequestTypeID)
	b.PutLong(1)
	return nil
}

type handler struct {
	mu       sync.Mutex
	messages int
	sessions int
}

func (h *handler) OnMessage(b *bin.Buffer) error {
	h.mu.Lock()
	h.messages++
	h.mu.Unlock()
	if b.Len() < 4 {
		return errors.New("short")
	}
	return nil
}

func (h *handler) OnSession(mtproto.Session) error {
	h.mu.Lock()
	h.sessions++
	h.mu.Unlock()
	return nil
}

type zeroReader struct{}

func (zeroReader) Read(p []byte) (int, error) {
	for i := range p {
		p[i] = 0
	}
	return len(p), nil
}

var (
	errSentinel = errors.New("verif: not completed by the payload")
	typeNames   = tmap.New(mt.TypesMap(), proto.TypesMap())
)

type observation struct {
	handleErr error
	doErr     map[string]error
	calls     map[string][][]byte
	messages  int
	sessions  int
	pong      bool
}

// run feeds one payload to a fresh connection with requests A and B pending and ping P waited for.
func run(payload []byte, pending []string) observation {
	clk := neo.NewTime(time.Unix(unixNow, 0))
	sent := make(chan int64, 8)
	eng := rpc.New(func(ctx context.Context, msgID int64, seqNo int32, in bin.Encoder) error {
		sent <- msgID
		return nil
	}, rpc.Options{Clock: clk, RetryInterval: time.Hour, MaxRetries: 3})
	h := &handler{}
	conn := mtproto.VerifC23New(mtproto.Options{
		Clock:   clk,
		Random:  zeroReader{},
		Handler: h,
		Types:   typeNames,
	}, eng)
	pongCh := conn.VerifC23ExpectPong(pingP)

	recs := map[string]*recorder{"A": {}, "B": {}}
	type doRes struct {
		name string
		err  error
	}
	results := make(chan doRes, 2)
	for _, name := range pending {
		name := name
		go func() {
			err := eng.Do(context.Background(), rpc.Request{MsgID: ids[name], SeqNo: 1, Input: nopEncoder{}, Output: recs[name]})
			results <- doRes{name, err}
		}()
	}
	for range pending {
		<-sent // the request is registered (the handler is installed before the first send)
	}

	obs := observation{doErr: map[string]error{}, calls: map[string][][]byte{}}
	finish := func() {
		// complete whatever the payload left pending, then collect both Do results
		eng.NotifyError(idA, errSentinel)
		eng.NotifyError(idB, errSentinel)
		for range pending {
			r := <-results
			obs.doErr[r.name] = r.err
		}
	}
	func() {
		defer func() {
			if p := recover(); p != nil {
				finish()
				panic(p)
			}
		}()
		obs.handleErr = conn.VerifC23HandleMessage(serverMsgID, &bin.Buffer{Buf: append([]byte(nil), payload...)})
	}()
	finish()
	for n, r := range recs {
		obs.calls[n] = r.calls
	}
	obs.messages, obs.sessions = h.messages, h.sessions
	select {
	case <-pongCh:
		obs.pong = true
	default:
	}
	return obs
}

func judge(payload []byte, pendingSet string) kit.Result {
	pending := []string{"A", "B"}
	if pendingSet == "A" {
		pending = []string{"A"}
	}
	obs := run(payload, pending)
	var w walker
	w.walk(payload)
	count := map[int64]int{}
	for _, n := range w.out {
		count[n.id]++
	}
	var lbl []string
	for _, name := range pending {
		id := ids[name]
		calls, derr := obs.calls[name], obs.doErr[name]
		switch {
		case len(calls) > 0:
			for _, got := range calls {
				ok, anyResult := false, false
				for _, n := range w.out {
					if n.id == id && n.kind == "result" {
						anyResult = true
						if bytes.Equal(n.body, got) {
							ok = true
						}
					}
				}
				if !ok && !w.uncertain {
					if anyResult {
						return kit.Bad("result-wrong-body", "request %s (id %d) received %d result bytes %s that are not the body of any rpc_result naming it", name, id, len(got), kit.Hex(cut(got, 64)))
					}
					return kit.Bad("result-misrouted", "request %s (id %d) received a result (%d bytes) although no rpc_result in the payload names it; named ids: %v", name, id, len(got), count)
				}
			}
			lbl = append(lbl, name+"=result")
		case !errors.Is(derr, errSentinel):
			named := false
			for _, n := range w.out {
				if n.id == id && n.kind == "error" {
					named = true
				}
			}
			if !named && !w.uncertain {
				return kit.Bad("error-misrouted", "request %s (id %d) was completed with %v although no rpc_error / bad_msg in the payload names it; named ids: %v", name, id, derr, count)
			}
			lbl = append(lbl, name+"=error")
		}
	}
	if obs.pong {
		// the waiter of ping P was released: some pong of the payload must carry ping_id P
		namedP := false
		for _, id := range w.pings {
			if id == pingP {
				namedP = true
			}
		}
		if !namedP && !w.uncertain {
			return kit.Bad("pong-misrouted", "the waiter of ping %#x was released although no pong in the payload carries that ping_id; ping ids in the payload: %x", pingP, w.pings)
		}
		lbl = append(lbl, "P=pong")
	}
	out := "routed:none"
	if len(lbl) > 0 {
		out = "routed:" + strings.Join(lbl, ",")
	}
	if pendingSet != "" {
		out = "pending=" + pendingSet + ":" + out
	}
	dup := false
	for _, c := range count {
		if c > 1 {
			dup = true
		}
	}
	switch {
	case dup:
		// whether the second answer for one id meets a still registered handler depends on scheduling
	case obs.handleErr != nil:
		out += "/err"
	default:
		out += "/ok"
	}
	if w.uncertain {
		out += "/gzip-unjudged"
	}
	return kit.Result{Outcome: out, Trivial: len(payload) < 4}
}

// wDeep: Leaf wrapped Depth times by Kind (cont | gzip | res).
type wDeep struct {
	Kind  string `json:"kind"`
	Depth int    `json:"depth"`
	Leaf  string `json:"leaf"`
}

func main() {
	kit.Main("C23", "exploration", func(c *kit.Ctx) {
		fam := kit.NewFamily(c, "payload", func(w wPayload) kit.Result { return judge(build(w), w.Pending) })
		deep := kit.NewIsolatedFamily(c, "deep-nesting", 2, 4096, func(w wDeep) kit.Result {
			b := baseBytes(w.Leaf)
			switch w.Kind {
			case "cont":
				// linear-time construction: every level adds 8 bytes of container header and 16 of message header
				out := make([]byte, 0, len(b)+24*w.Depth)
				for i := w.Depth; i > 0; i-- {
					out = reftl.U32(reftl.U32(out, reftl.IDContainer), 1)
					out = reftl.U32(reftl.U32(reftl.U64(out, uint64(serverMsgID+4)), 1), uint32(len(b)+24*(i-1)))
				}
				b = append(out, b...)
			case "res":
				out := make([]byte, 0, len(b)+12*w.Depth)
				for i := 0; i < w.Depth; i++ {
					out = reftl.U64(reftl.U32(out, reftl.IDRPCResult), uint64(idC))
				}
				b = append(out, b...)
			case "gzip":
				for i := 0; i < w.Depth; i++ {
					b = reftl.GzipPacked(reftl.Gzip(b, 0))
				}
			case "mixed":
				for i := 0; i < w.Depth; i++ {
					if i%2 == 0 {
						b = reftl.GzipPacked(reftl.Gzip(b, 0))
					} else {
						b = cont(b)
					}
				}
			default:
				panic("kind " + w.Kind)
			}
			return judge(b, "")
		})
		if c.Replaying() {
			return
		}
		defer deep.Close()

		entries, err := os.ReadDir(corpusDir())
		var corpus []string
		for _, e := range entries {
			if !e.IsDir() {
				corpus = append(corpus, e.Name())
			}
		}
		sort.Strings(corpus)
		c.Set("corpus_files", len(corpus))
		if err != nil || len(corpus) == 0 {
			c.NotExhaustive("handle_message corpus not found at %s: only generated messages were explored", corpusDir())
		}

		c.Rule("Each payload is given to handleMessage of a fresh mtproto.Conn (fake clock, no-op logger, recording handler) whose real rpc.Engine holds two pending requests A and B (plus a waited ping); generated messages and corpus files under a single wrapper are also run with only A pending. "+
			"Payloads: %d generated service messages (new_session_created, bad_msg_notification / bad_server_salt for A, B and a non-pending id C, future_salts incl. huge and negative counts, pong, msgs_ack, "+
			"msg_detailed_info, rpc_result for A/B/C with object, empty, rpc_error, gzip-packed object/error/pong/bomb/double gzip, nested result, unknown types, short input) and the %d files of the handle_message corpus; "+
			"each generated message: cut at every byte, every wrapper sequence of length <=2 (thorough <=3) over {gzip, container, rpc_result A, rpc_result C}, cut at every word inside each single wrapper and of each single-wrapped payload, "+
			"every ordered pair of generated messages in one container; each corpus file: as is, in a container, gzip-packed, in rpc_result for A and for C, in a container next to a result for B (thorough: also cut at every word, plain and inside rpc_result A). "+
			"Deep nesting in a worker process (4 GiB limit): containers nested 3000 deep (thorough 8000; time and memory of the handler are quadratic in the depth because every level copies its body, so the depth is kept where that stays below 1 GiB), gzip nested 200 (1000), rpc_result 10000 (100000), alternating 200 (1000). "+
			"Oracle: no panic / crash; a reference walk of the payload (containers, gzip via compress/gzip, rpc_result, rpc_error, bad_msg) lists which ids are named with which result bodies; the Output decoder of a pending request may only be "+
			"called with the body of an rpc_result naming its id, a pending request may only fail with a payload-supplied error if an rpc_error result or bad_msg notification names its id, "+
			"and the waiter of the one awaited ping P may only be released if a pong (top level, in a container, gzip-packed or as an rpc_result body) carries ping_id P. distinct = distinct witnesses; payloads shorter than 4 bytes are trivial.",
			len(baseNames), len(corpus))
		c.Assume("completion of a request is observed through rpc.Engine.Do's return value; after handleMessage returned, the harness completes still pending requests with a sentinel error so that the observation does not depend on scheduling")
		c.Assume("payloads containing a gzip stream that compress/gzip rejects or that inflates to >= 10 MiB are only checked for crashes (label gzip-unjudged)")

		var jobs []wPayload
		add := func(w wPayload) { jobs = append(jobs, w) }
		wraps := []string{"gzip", "cont", "res:A", "res:C"}
		maxWrap := 2
		if c.Thorough() {
			maxWrap = 3
		}
		for _, b := range baseNames {
			raw := baseBytes(b)
			heavy := strings.Contains(b, "bomb")
			add(wPayload{b, -1, nil, -1, ""})
			add(wPayload{Base: b, CutInner: -1, CutOuter: -1, Pending: "A"})
			for _, w := range wraps {
				add(wPayload{Base: b, CutInner: -1, Wrap: []string{w}, CutOuter: -1, Pending: "A"})
			}
			if !heavy {
				for n := 0; n < len(raw); n++ {
					add(wPayload{b, n, nil, -1, ""})
				}
			}
			var rec func(cur []string)
			rec = func(cur []string) {
				if len(cur) > 0 {
					add(wPayload{b, -1, append([]string(nil), cur...), -1, ""})
				}
				if len(cur) == maxWrap || (heavy && len(cur) == 1) {
					return
				}
				for _, w := range wraps {
					rec(append(cur, w))
				}
			}
			rec(nil)
			if heavy {
				continue
			}
			for _, w := range wraps {
				for n := 0; n < len(raw); n += 4 {
					add(wPayload{b, n, []string{w}, -1, ""})
				}
				full := build(wPayload{b, -1, []string{w}, -1, ""})
				for n := 0; n < len(full); n += 4 {
					add(wPayload{b, -1, []string{w}, n, ""})
				}
			}
			for _, o := range baseNames {
				if strings.Contains(o, "bomb") {
					continue
				}
				add(wPayload{b, -1, []string{"pair:" + o}, -1, ""})
			}
		}
		for _, f := range corpus {
			b := "corpus:" + f
			add(wPayload{b, -1, nil, -1, ""})
			for _, w := range wraps {
				add(wPayload{b, -1, []string{w}, -1, ""})
				add(wPayload{b, -1, []string{w}, -1, "A"})
			}
			add(wPayload{b, -1, []string{"rpair:res:B:obj"}, -1, ""})
			if c.Thorough() {
				raw := baseBytes(b)
				for n := 0; n < len(raw); n += 4 {
					add(wPayload{b, n, nil, -1, ""})
					add(wPayload{b, n, []string{"res:A"}, -1, ""})
				}
			}
		}
		c.Set("payloads", len(jobs))
		kit.Parallel(len(jobs), 16, func(i int) {
			if c.Expired() {
				return
			}
			fam.Eval(jobs[i])
		})
		if c.Expired() {
			c.NotExhaustive("time budget hit inside the payload family")
		}

		dj := []wDeep{{"cont", 3000, "res:A:obj"}, {"gzip", 200, "res:A:obj"}, {"res", 10000, "res:A:obj"}, {"mixed", 200, "res:B:obj"}, {"cont", 3000, "empty"}}
		if c.Thorough() {
			dj = append(dj, wDeep{"cont", 8000, "res:A:obj"}, wDeep{"gzip", 1000, "res:A:err"}, wDeep{"res", 100000, "res:B:obj"}, wDeep{"mixed", 1000, "res:A:obj"})
		}
		kit.Parallel(len(dj), 2, func(i int) { deep.Eval(dj[i]) })
		_ = fmt.Sprint
		_ = strconv.Itoa
	})
}
