//go:build verif

package mtproto

import (
	"github.com/gotd/td/bin"
	"github.com/gotd/td/rpc"
)

// VerifC23New builds an unstarted connection exactly as New does, with the given RPC engine in
// place of the one New would create (the unexported Options.engine field, as the package's own
// tests do). No dialer: the connection is never run.
func VerifC23New(opt Options, engine *rpc.Engine) *Conn {
	opt.engine = engine
	return New(nil, opt)
}

// VerifC23HandleMessage calls the connection's message handler.
func (c *Conn) VerifC23HandleMessage(msgID int64, b *bin.Buffer) error {
	return c.handleMessage(msgID, b)
}

// VerifC23ExpectPong registers a waiter for a pong with the given ping id, as Ping does.
func (c *Conn) VerifC23ExpectPong(pingID int64) <-chan struct{} {
	return c.pong(pingID)
}
