// C11: DecryptExchangeAnswer returns the embedded data whose SHA-1 prefix matches, or an error;
// never success with empty / unauthenticated data.
package main

import (
	"bytes"
	"fmt"

	"github.com/gotd/td/crypto"
	"github.com/gotd/td/internal/verif/kit"
	"github.com/gotd/td/internal/verif/lib/refcrypto"
)

type wValid struct {
	Len  int    `json:"len"`
	Data string `json:"data_pattern"`
	Pad  string `json:"pad_pattern"`
}

type wCipher struct {
	// ciphertext = valid answer for (Len, "count", "stream:p") with bit Flip flipped (-1: none),
	// or, when Garbage != "", Pattern(Garbage, Len) taken as ciphertext directly.
	Len     int    `json:"len"`
	Flip    int    `json:"flip_bit"`
	Garbage string `json:"garbage,omitempty"`
}

var (
	key = kit.Pattern("stream:c11key", 32)
	iv  = kit.Pattern("stream:c11iv", 32)
)

func padReader(p string) interface{ Read([]byte) (int, error) } {
	switch p {
	case "zero":
		return kit.ConstReader(0)
	case "ff":
		return kit.ConstReader(0xff)
	}
	return kit.NewStream(uint64(len(p)) + 77)
}

// oracle: err == nil  =>  len(dst) > 0 is not required by the statement, but dst must be the data
// whose SHA-1 equals the first 20 bytes of the reference decryption and dst must be a prefix of
// the decrypted tail (i.e. authenticated data). (nil, nil) is a violation.
func judge(ct []byte) kit.Result {
	dst, err := crypto.DecryptExchangeAnswer(ct, key, iv)
	if err != nil {
		if dst != nil {
			return kit.Bad("data-with-error", "error %v returned together with %d bytes of data", err, len(dst))
		}
		return kit.OKo("error")
	}
	if len(ct)%16 != 0 || len(ct) == 0 {
		return kit.Bad("success-on-unaligned", "len %d accepted", len(ct))
	}
	plain := refcrypto.IGEDecrypt(key, iv, ct)
	if len(plain) < 20 {
		return kit.Bad("success-unauthenticated", "success on %d-byte ciphertext, result %x", len(ct), dst)
	}
	if !bytes.Equal(refcrypto.SHA1(dst), plain[:20]) || !bytes.HasPrefix(plain[20:], dst) || len(plain)-20-len(dst) > 15 {
		return kit.Bad("success-unauthenticated", "success (dst=%x, nil=%v) but SHA1(dst) != decrypted hash prefix %x (ciphertext %d bytes)", dst, dst == nil, plain[:20], len(ct))
	}
	return kit.OKo("data")
}

func main() {
	kit.Main("C11", "exploration", func(c *kit.Ctx) {
		valid := kit.NewFamily(c, "valid-roundtrip", func(w wValid) kit.Result {
			data := kit.Pattern(w.Data, w.Len)
			ct, err := crypto.EncryptExchangeAnswer(padReader(w.Pad), data, key, iv)
			if err != nil {
				return kit.Bad("encrypt-error", "%v", err)
			}
			// reference: SHA1(data)+data+pad, IGE
			plain := refcrypto.IGEDecrypt(key, iv, ct)
			if !bytes.Equal(plain[:20], refcrypto.SHA1(data)) || !bytes.Equal(plain[20:20+w.Len], data) || len(plain)%16 != 0 || len(plain)-20-w.Len > 15 {
				return kit.Bad("encrypt-not-spec", "encrypted answer is not SHA1(data)+data+pad(0..15)")
			}
			dst, err := crypto.DecryptExchangeAnswer(ct, key, iv)
			if err != nil {
				return kit.Bad("valid-rejected", "valid answer rejected: %v", err)
			}
			if !bytes.Equal(dst, data) {
				// an earlier padding guess may match only with negligible probability; the statement
				// asks for data whose SHA-1 prefix matches, so judge() decides.
				return judge(ct)
			}
			return kit.OKo("roundtrip")
		})
		tampered := kit.NewFamily(c, "ciphertext", func(w wCipher) kit.Result {
			var ct []byte
			if w.Garbage != "" {
				ct = kit.Pattern(w.Garbage, w.Len)
			} else {
				data := kit.Pattern("count", w.Len)
				var err error
				ct, err = crypto.EncryptExchangeAnswer(kit.NewStream(5), data, key, iv)
				if err != nil {
					return kit.Bad("encrypt-error", "%v", err)
				}
				if w.Flip >= 0 {
					ct[w.Flip/8] ^= 1 << (w.Flip % 8)
				}
			}
			return judge(ct)
		})
		if c.Replaying() {
			return
		}
		c.Rule("valid answers: data length 0..64 (thorough 0..256) x data patterns {count,zero,ff} x padding streams {zero,ff,stream}; " +
			"ciphertexts: every single-bit flip of the valid answer for each data length 0..32 (thorough 0..64), and garbage ciphertexts of every " +
			"length 0..128 x patterns {zero,ff,count,stream a,b}. distinct = distinct witnesses. Oracle: success implies SHA1(result) equals the " +
			"first 20 bytes of an independent AES-IGE decryption and result is the data that follows.")
		c.Assume("reference AES-IGE written from the spec on crypto/aes; key/iv fixed (the function does not branch on them)")
		maxLen, flipLen := 64, 32
		if c.Thorough() {
			maxLen, flipLen = 256, 64
		}
		for n := 0; n <= maxLen; n++ {
			for _, d := range []string{"count", "zero", "ff"} {
				for _, p := range []string{"zero", "ff", "stream"} {
					valid.Eval(wValid{n, d, p})
				}
			}
		}
		for n := 0; n <= flipLen; n++ {
			total := ((n + 20 + 15) / 16) * 16 * 8
			for b := 0; b < total; b++ {
				tampered.Eval(wCipher{Len: n, Flip: b})
			}
		}
		for n := 0; n <= 128; n++ {
			for _, g := range []string{"zero", "ff", "count", "stream:a", "stream:b"} {
				tampered.Eval(wCipher{Len: n, Flip: -1, Garbage: g})
			}
		}
		_ = fmt.Sprint
	})
}
