// C11: DecryptExchangeAnswer returns the embedded data whose SHA-1 prefix matches, or an error;
// never success with empty / unauthenticated data.
package main

import (
	"bytes"
	"fmt"

	"github.com/gotd/td/crypto"
	"github.com/gotd/td/internal/verif/kit"
	"github.com/gotd/td/internal/verif/lib/refcrypto"
)

type wValid struct {
	Len  int    `json:"len"`
	Data string `json:"data_pattern"`
	Pad  string `json:"pad_pattern"`
}

type wCipher struct {
	// ciphertext = valid answer for (Len, "count", "stream:p") with bit Flip flipped (-1: none),
	// or, when Garbage != "", Pattern(Garbage, Len) taken as ciphertext directly.
	// With Plain, the bit is flipped in the plaintext SHA1(data)+data+pad and the result is encrypted by the
	// reference IGE (a well-formed answer whose only defect is that bit: wrong hash, wrong data, or - in the
	// padding - no defect at all).
	Len     int    `json:"len"`
	Flip    int    `json:"flip_bit"`
	Garbage string `json:"garbage,omitempty"`
	Plain   bool   `json:"flip_in_plaintext,omitempty"`
}

func short(b []byte) string {
	if len(b) > 48 {
		return fmt.Sprintf("%x...(%d bytes)", b[:48], len(b))
	}
	return fmt.Sprintf("%x", b)
}

var (
	key = kit.Pattern("stream:c11key", 32)
	iv  = kit.Pattern("stream:c11iv", 32)
)

func padReader(p string) interface{ Read([]byte) (int, error) } {
	switch p {
	case "zero":
		return kit.ConstReader(0)
	case "ff":
		return kit.ConstReader(0xff)
	}
	return kit.NewStream(uint64(len(p)) + 77)
}

// oracle: err == nil  =>  len(dst) > 0 is not required by the statement, but dst must be the data
// whose SHA-1 equals the first 20 bytes of the reference decryption and dst must be a prefix of
// the decrypted tail (i.e. authenticated data). (nil, nil) is a violation.
func judge(ct []byte) kit.Result {
	dst, err := crypto.DecryptExchangeAnswer(ct, key, iv)
	if err != nil {
		if dst != nil {
			return kit.Bad("data-with-error", "error %v returned together with %d bytes of data", err, len(dst))
		}
		return kit.OKo("error")
	}
	if len(ct)%16 != 0 || len(ct) == 0 {
		return kit.Bad("success-on-unaligned", "len %d accepted", len(ct))
	}
	plain := refcrypto.IGEDecrypt(key, iv, ct)
	if len(plain) < 20 {
		return kit.Bad("success-unauthenticated", "success on %d-byte ciphertext, result %s", len(ct), short(dst))
	}
	if !bytes.Equal(refcrypto.SHA1(dst), plain[:20]) || !bytes.HasPrefix(plain[20:], dst) || len(plain)-20-len(dst) > 15 {
		return kit.Bad("success-unauthenticated", "success (dst=%s, nil=%v) but SHA1(dst) != decrypted hash prefix %x (ciphertext %d bytes)", short(dst), dst == nil, plain[:20], len(ct))
	}
	return kit.OKo("data")
}

func main() {
	kit.Main("C11", "exploration", func(c *kit.Ctx) {
		valid := kit.NewFamily(c, "valid-roundtrip", func(w wValid) kit.Result {
			data := kit.Pattern(w.Data, w.Len)
			ct, err := crypto.EncryptExchangeAnswer(padReader(w.Pad), data, key, iv)
			if err != nil {
				return kit.Bad("encrypt-error", "%v", err)
			}
			// reference: SHA1(data)+data+pad, IGE
			plain := refcrypto.IGEDecrypt(key, iv, ct)
			if !bytes.Equal(plain[:20], refcrypto.SHA1(data)) || !bytes.Equal(plain[20:20+w.Len], data) || len(plain)%16 != 0 || len(plain)-20-w.Len > 15 {
				return kit.Bad("encrypt-not-spec", "encrypted answer is not SHA1(data)+data+pad(0..15)")
			}
			dst, err := crypto.DecryptExchangeAnswer(ct, key, iv)
			if err != nil {
				return kit.Bad("valid-rejected", "valid answer rejected: %v", err)
			}
			if !bytes.Equal(dst, data) {
				// an earlier padding guess may match only with negligible probability; the statement
				// asks for data whose SHA-1 prefix matches, so judge() decides.
				return judge(ct)
			}
			return kit.OKo("roundtrip")
		})
		tampered := kit.NewFamily(c, "ciphertext", func(w wCipher) kit.Result {
			var ct []byte
			if w.Garbage != "" {
				ct = kit.Pattern(w.Garbage, w.Len)
			} else {
				data := kit.Pattern("count", w.Len)
				var err error
				ct, err = crypto.EncryptExchangeAnswer(kit.NewStream(5), data, key, iv)
				if err != nil {
					return kit.Bad("encrypt-error", "%v", err)
				}
				if w.Flip >= 0 && w.Plain {
					plain := refcrypto.IGEDecrypt(key, iv, ct)
					plain[w.Flip/8] ^= 1 << (w.Flip % 8)
					ct = refcrypto.IGEEncrypt(key, iv, plain)
				} else if w.Flip >= 0 {
					ct[w.Flip/8] ^= 1 << (w.Flip % 8)
				}
			}
			return judge(ct)
		})
		if c.Replaying() {
			return
		}
		c.Rule("valid answers: data length 0..64 (thorough 0..256) x data patterns {count,zero,ff} x padding streams {zero,ff,stream}; " +
			"ciphertexts: every single-bit flip of the valid answer for each data length 0..32 (thorough 0..64), and garbage ciphertexts of every " +
			"length 0..128 x patterns {zero,ff,count,stream a,b}. Length dimension: for every block count B in {2^k-1,2^k,2^k+1 : k=3..13 " +
			"(thorough k=3..16, and 2^20 = 16 MiB)} (64 KiB = 2^12 blocks and 128 KiB are inside): valid answers filling B blocks with padding 0,1,15 " +
			"x data patterns x padding streams; the valid answer with one bit flipped at each structural position (first bit, last hash bit, " +
			"first data bit, middle, first/last bit of the last block) in the ciphertext and in the plaintext (re-encrypted by the reference); " +
			"garbage of 16B bytes and of the unaligned lengths 16B-1, 16B+1, 16B+8 x 5 patterns. distinct = distinct witnesses. Oracle: success implies SHA1(result) equals the " +
			"first 20 bytes of an independent AES-IGE decryption and result is the data that follows.")
		c.Assume("reference AES-IGE written from the spec on crypto/aes; key/iv fixed (the function does not branch on them)")
		maxLen, flipLen := 64, 32
		if c.Thorough() {
			maxLen, flipLen = 256, 64
		}
		for n := 0; n <= maxLen; n++ {
			for _, d := range []string{"count", "zero", "ff"} {
				for _, p := range []string{"zero", "ff", "stream"} {
					valid.Eval(wValid{n, d, p})
				}
			}
		}
		for n := 0; n <= flipLen; n++ {
			total := ((n + 20 + 15) / 16) * 16 * 8
			for b := 0; b < total; b++ {
				tampered.Eval(wCipher{Len: n, Flip: b})
			}
		}
		for n := 0; n <= 128; n++ {
			for _, g := range []string{"zero", "ff", "count", "stream:a", "stream:b"} {
				tampered.Eval(wCipher{Len: n, Flip: -1, Garbage: g})
			}
		}
		// length dimension: block counts around every power of two
		maxK := 13
		if c.Thorough() {
			maxK = 16
		}
		var blocks []int
		for k := 3; k <= maxK; k++ {
			blocks = append(blocks, 1<<k-1, 1<<k, 1<<k+1)
		}
		if c.Thorough() {
			blocks = append(blocks, 1<<20-1, 1<<20, 1<<20+1)
		}
		c.Set("max_ciphertext_bytes", blocks[len(blocks)-1]*16)
		for _, b := range blocks {
			if c.Expired() {
				c.NotExhaustive("length dimension stopped before %d blocks", b)
				break
			}
			for _, pad := range []int{0, 1, 15} {
				n := b*16 - 20 - pad
				for _, d := range []string{"count", "zero", "ff"} {
					for _, p := range []string{"zero", "ff", "stream"} {
						valid.Eval(wValid{n, d, p})
					}
				}
				total := b * 16 * 8
				for _, pos := range []int{0, 159, 160, total / 2, total - 128, total - 1} {
					tampered.Eval(wCipher{Len: n, Flip: pos})
					tampered.Eval(wCipher{Len: n, Flip: pos, Plain: true})
				}
			}
			for _, n := range []int{b * 16, b*16 - 1, b*16 + 1, b*16 + 8} {
				for _, g := range []string{"zero", "ff", "count", "stream:a", "stream:b"} {
					tampered.Eval(wCipher{Len: n, Flip: -1, Garbage: g})
				}
			}
		}
	})
}
