// C33: streaming and parallel downloads write exactly the remote file's bytes and report its type.
//
// The real downloader (real goroutines, default schedule) runs against a mock Client that serves a synthetic file
// (bytes = f(offset)) and answers FLOOD_WAIT / retryable timeouts at scripted (part, attempt) positions. The sinks
// verify every written byte against the file and account for gaps and duplicates; the oracle does not depend on the
// goroutine schedule.
package main

import (
	"context"
	"crypto/sha256"
	"fmt"
	"io"
	"runtime"
	"sort"
	"sync"
	"sync/atomic"
	"time"

	"github.com/go-faster/errors"

	"github.com/gotd/td/internal/verif/kit"
	"github.com/gotd/td/internal/verif/lib/reffiles"
	"github.com/gotd/td/telegram/downloader"
	"github.com/gotd/td/tg"
	"github.com/gotd/td/tgerr"
)

const (
	kib  = 1024
	mib  = 1024 * 1024
	seed = 33
)

type fault struct {
	Part    int    `json:"part"`    // request offset / part size
	Attempt int    `json:"attempt"` // 0 = first request for that offset
	Kind    string `json:"kind"`    // flood | premium | timeout-rpc | timeout-net | deadline | fatal (not retryable)
}

type wDown struct {
	Size     int64   `json:"size"`
	PartSize int     `json:"part_size"`
	Mode     string  `json:"mode"` // stream | parallel
	Threads  int     `json:"threads"`
	Verify   bool    `json:"verify,omitempty"` // WithVerify(true): hash-driven reader
	Faults   []fault `json:"faults,omitempty"`
	// HoldSet: the mock does not answer a retry (attempt >= 1) of part Hold before the final block of the file
	// has been written (or, for an empty final block, answered). Forces "an earlier part is still in flight when
	// the end of the file is seen".
	Hold    int  `json:"hold_part,omitempty"`
	HoldSet bool `json:"hold,omitempty"`
	Rep     int  `json:"repetition,omitempty"`
	// Opt: non-default way to build the download. "" = NewDownloader().Download(); nocdn = WithAllowCDN(false);
	// allowcdn-noprovider = WithAllowCDN(true), client without CDN transport; allowcdn = WithAllowCDN(true) with a CDN
	// provider, the file is not on a CDN (the master never redirects); retry-handler = WithRetryHandler(counting handler);
	// web = Downloader.Web (upload.getWebFile).
	Opt string `json:"option,omitempty"`
	// SinkFailAt k >= 1: the k-th Write/WriteAt of the sink fails after taking SinkFailN bytes (0 or half of the block).
	SinkFailAt int  `json:"sink_fail_at,omitempty"`
	SinkHalf   bool `json:"sink_fail_takes_half,omitempty"`
}

type netTimeout struct{}

func (netTimeout) Error() string   { return "i/o timeout" }
func (netTimeout) Timeout() bool   { return true }
func (netTimeout) Temporary() bool { return true }

func faultErr(kind string) error {
	switch kind {
	case "flood":
		return tgerr.New(420, "FLOOD_WAIT_2")
	case "premium":
		return tgerr.New(420, "FLOOD_PREMIUM_WAIT_1")
	case "timeout-rpc":
		return tgerr.New(-503, tg.ErrTimeout)
	case "timeout-net":
		return errors.Wrap(netTimeout{}, "read tcp")
	case "deadline":
		return errors.Wrap(context.DeadlineExceeded, "invoke")
	case "fatal":
		return tgerr.New(400, "FILE_REFERENCE_EXPIRED")
	}
	panic("unknown fault kind " + kind)
}

type mock struct {
	mu       sync.Mutex
	size     int64
	ps       int
	window   int // hash window of UploadGetFileHashes
	faults   map[[2]int]string
	attempts map[int64]int
	injected int
	calls    int
	answers  int           // successful UploadGetFile answers (each carries the type)
	fatal    int           // non-retryable answers given
	holdOff  int64         // offset whose retries are held (-1: none)
	finalOff int64         // offset of the final (short or empty) block
	final    chan struct{} // closed when the final block has been written (non-empty) / answered (empty)
	finalOne sync.Once
	// liveness guards of a held retry, see UploadGetFile
	answeredGuard chan struct{}
	answeredOne   sync.Once
	guardFired    atomic.Bool
	odd           []string // requests that the API does not allow
	web           bool
}

func (m *mock) finalDone() { m.finalOne.Do(func() { close(m.final) }) }

func (m *mock) UploadGetFile(ctx context.Context, r *tg.UploadGetFileRequest) (tg.UploadFileClass, error) {
	m.mu.Lock()
	a := m.attempts[r.Offset]
	m.attempts[r.Offset] = a + 1
	m.calls++
	kind := m.faults[[2]int{int(r.Offset / int64(m.ps)), a}]
	if kind != "" && r.Offset%int64(m.ps) == 0 {
		m.injected++
	} else {
		kind = ""
	}
	if r.Limit <= 0 || r.Offset < 0 {
		m.odd = append(m.odd, fmt.Sprintf("offset=%d limit=%d", r.Offset, r.Limit))
	}
	if kind == "fatal" {
		m.fatal++
	}
	m.mu.Unlock()
	if r.Offset == m.holdOff && a >= 1 {
		// hold this retry until the end of the file has gone through (no timing: channel + yields)
		// Liveness guards (never part of the oracle, never fire on a correct downloader): if the final block was
		// answered but is not written within 300 ms (a broken downloader dropped it), or nothing happens for 3 s,
		// the retry is answered anyway and the case is judged like any other, labelled hold-released-by-guard.
		guard := time.NewTimer(3 * time.Second)
		select {
		case <-m.final:
		case <-m.answeredGuard:
			m.guardFired.Store(true)
		case <-guard.C:
			m.guardFired.Store(true)
		case <-ctx.Done():
			guard.Stop()
			return nil, ctx.Err()
		}
		guard.Stop()
		for i := 0; i < 64; i++ {
			runtime.Gosched()
		}
	}
	if kind != "" {
		return nil, faultErr(kind)
	}
	if r.Offset == m.finalOff && m.size%int64(m.ps) == 0 {
		defer m.finalDone() // empty final block: nothing will be written for it
	}
	if r.Offset == m.finalOff && m.holdOff >= 0 {
		m.answeredOne.Do(func() { time.AfterFunc(300*time.Millisecond, func() { close(m.answeredGuard) }) })
	}
	n := 0
	if r.Offset < m.size && r.Limit > 0 {
		n = r.Limit
		if int64(n) > m.size-r.Offset {
			n = int(m.size - r.Offset)
		}
	}
	m.mu.Lock()
	m.answers++
	m.mu.Unlock()
	return &tg.UploadFile{Type: &tg.StorageFilePng{}, Mtime: 1700000000, Bytes: reffiles.Bytes(seed, r.Offset, n)}, nil
}

func (m *mock) UploadGetFileHashes(_ context.Context, r *tg.UploadGetFileHashesRequest) ([]tg.FileHash, error) {
	var out []tg.FileHash
	w := int64(m.window)
	for off := r.Offset / w * w; off < m.size && len(out) < 4; off += w {
		n := w
		if n > m.size-off {
			n = m.size - off
		}
		h := sha256.Sum256(reffiles.Bytes(seed, off, int(n)))
		out = append(out, tg.FileHash{Offset: off, Limit: int(n), Hash: h[:]})
	}
	return out, nil
}

var errNotUsed = errors.New("mock: method not expected in a plain download")

func (m *mock) UploadReuploadCDNFile(context.Context, *tg.UploadReuploadCDNFileRequest) ([]tg.FileHash, error) {
	return nil, errNotUsed
}

func (m *mock) UploadGetCDNFileHashes(context.Context, *tg.UploadGetCDNFileHashesRequest) ([]tg.FileHash, error) {
	return nil, errNotUsed
}

func (m *mock) UploadGetWebFile(ctx context.Context, r *tg.UploadGetWebFileRequest) (*tg.UploadWebFile, error) {
	if !m.web {
		return nil, errNotUsed
	}
	f, err := m.UploadGetFile(ctx, &tg.UploadGetFileRequest{Offset: int64(r.Offset), Limit: r.Limit})
	if err != nil {
		return nil, err
	}
	uf := f.(*tg.UploadFile)
	return &tg.UploadWebFile{Size: int(m.size), MimeType: "image/png", FileType: uf.Type, Mtime: uf.Mtime, Bytes: uf.Bytes}, nil
}

// withCDN adds a CDN transport factory to the mock client; the file is not on a CDN, so it must never be asked.
type withCDN struct {
	*mock
	asked atomic.Int32
}

func (c *withCDN) CDN(context.Context, int, int64) (downloader.CDN, io.Closer, error) {
	c.asked.Add(1)
	return nil, nil, errors.New("mock: no CDN client expected, the master never redirected")
}

// sink verifies every write against the file. Stream mode appends; parallel mode writes at offsets.
type sink struct {
	m       *mock
	mu      sync.Mutex
	pos     int64 // stream position
	cover   reffiles.Intervals
	bad     string
	written int64
	failAt  int  // fail the failAt-th write (0: never)
	half    bool // the failing write takes half of the block first
	writes  int
	failed  bool
}

var errSink = errors.New("sink: no space left on device")

// fail decides whether this write fails; it returns the number of bytes the failing write still takes.
func (s *sink) fail(n int) (take int, failing bool) {
	s.writes++
	if s.failAt == 0 || s.writes != s.failAt {
		return n, false
	}
	s.failed = true
	if s.half {
		return n / 2, true
	}
	return 0, true
}

func (s *sink) note(format string, a ...any) {
	if s.bad == "" {
		s.bad = fmt.Sprintf(format, a...)
	}
}

func (s *sink) Write(p []byte) (int, error) {
	s.mu.Lock()
	defer s.mu.Unlock()
	if take, failing := s.fail(len(p)); failing {
		// the bytes taken before the error are not accounted: the file is incomplete from here on
		s.pos += int64(take)
		return take, errSink
	}
	if i := reffiles.Mismatch(seed, s.pos, p); i >= 0 {
		s.note("stream byte %d differs from the file (write of %d bytes at position %d)", s.pos+int64(i), len(p), s.pos)
	}
	s.cover.Add(s.pos, s.pos+int64(len(p)))
	s.pos += int64(len(p))
	s.written += int64(len(p))
	return len(p), nil
}

func (s *sink) WriteAt(p []byte, off int64) (int, error) {
	s.mu.Lock()
	defer s.mu.Unlock()
	if take, failing := s.fail(len(p)); failing {
		return take, errSink
	}
	if i := reffiles.Mismatch(seed, off, p); i >= 0 {
		s.note("byte %d differs from the file (WriteAt of %d bytes at offset %d)", off+int64(i), len(p), off)
	}
	s.cover.Add(off, off+int64(len(p)))
	s.written += int64(len(p))
	if off == s.m.finalOff && len(p) > 0 {
		s.m.finalDone()
	}
	return len(p), nil
}

func evalDownload(w wDown) kit.Result {
	m := &mock{size: w.Size, ps: w.PartSize, window: w.PartSize, faults: map[[2]int]string{}, attempts: map[int64]int{},
		holdOff: -1, finalOff: w.Size / int64(w.PartSize) * int64(w.PartSize), final: make(chan struct{}), answeredGuard: make(chan struct{})}
	if w.HoldSet {
		if w.Mode != "parallel" || w.Threads < 2 || w.Verify || int64(w.Hold)*int64(w.PartSize) >= m.finalOff {
			panic("hold needs a parallel download with >= 2 threads and a held part before the final one")
		}
		m.holdOff = int64(w.Hold) * int64(w.PartSize)
	}
	if w.Verify {
		// hash windows deliberately differ from the part size (the verified reader follows the windows)
		m.window = 2 * w.PartSize
	}
	for _, f := range w.Faults {
		m.faults[[2]int{f.Part, f.Attempt}] = f.Kind
	}
	d := downloader.NewDownloader().WithPartSize(w.PartSize)
	var (
		client  downloader.Client = m
		cdnMock *withCDN
		retried atomic.Int32
	)
	switch w.Opt {
	case "", "web":
	case "nocdn":
		d = d.WithAllowCDN(false)
	case "allowcdn-noprovider":
		d = d.WithAllowCDN(true)
	case "allowcdn":
		d = d.WithAllowCDN(true)
		cdnMock = &withCDN{mock: m}
		client = cdnMock
	case "retry-handler":
		d = d.WithRetryHandler(func(downloader.RetryEvent) { retried.Add(1) })
	default:
		panic("option " + w.Opt)
	}
	var b *downloader.Builder
	if w.Opt == "web" {
		m.web = true
		b = d.Web(client, &tg.InputWebFileLocation{URL: "https://verif.invalid/c33.png", AccessHash: 3333})
	} else {
		b = d.Download(client, &tg.InputDocumentFileLocation{ID: 33, AccessHash: 3333})
	}
	b = b.WithThreads(w.Threads)
	if w.Verify {
		b = b.WithVerify(true)
	}
	s := &sink{m: m, failAt: w.SinkFailAt, half: w.SinkHalf}
	var (
		typ tg.StorageFileTypeClass
		err error
	)
	switch w.Mode {
	case "stream":
		typ, err = b.Stream(context.Background(), s)
	case "parallel":
		typ, err = b.Parallel(context.Background(), s)
	default:
		panic("mode " + w.Mode)
	}
	pre := ""
	if w.Verify {
		pre = "verified:"
	}
	m.mu.Lock()
	fatal := m.fatal
	m.mu.Unlock()
	if w.Opt != "" {
		pre = w.Opt + ":" + pre
	}
	s.mu.Lock()
	sinkFailed := s.failed
	s.mu.Unlock()
	if sinkFailed {
		// the sink refused a block: the file cannot be complete, so the download must not report success
		if err != nil {
			return kit.OKo(pre + w.Mode + "/failed-on-sink-error")
		}
		return kit.Bad(pre+"sink-error-swallowed", "write %d of the sink failed (%v) but the download reported success; written ranges %v of a %d-byte file",
			w.SinkFailAt, errSink, s.cover.Ranges(), w.Size)
	}
	if err != nil {
		if fatal > 0 {
			// a non-retryable answer was given: failing is a legitimate outcome
			return kit.OKo(pre + w.Mode + "/failed-on-fatal-answer")
		}
		return kit.Bad(pre+"unexpected-error", "download failed although only FLOOD_WAIT / retryable timeouts were injected: %v", err)
	}
	if fatal > 0 && s.bad == "" && !s.cover.Dup && !s.cover.Covers(w.Size) {
		// success although a part request was answered with a non-retryable error and the file is incomplete
		r := s.cover.Ranges()
		if len(r) > 6 {
			r = r[:6]
		}
		return kit.Bad(pre+"fatal-error-swallowed", "a request was answered FILE_REFERENCE_EXPIRED (not retryable), the download reported success, "+
			"but the file has %d bytes and the written ranges are %v (faults %+v, held part %d/%v)", w.Size, r, w.Faults, w.Hold, w.HoldSet)
	}
	if s.bad != "" {
		return kit.Bad(pre+"content", "%s", s.bad)
	}
	if s.cover.Dup {
		return kit.Bad(pre+"duplicate", "bytes [%d,%d) were written twice", s.cover.DupA[0], s.cover.DupA[1])
	}
	if !s.cover.Covers(w.Size) {
		r := s.cover.Ranges()
		if len(r) > 6 {
			r = r[:6]
		}
		cl := "gap"
		if len(r) <= 1 {
			cl = "length"
		}
		return kit.Bad(pre+cl, "file has %d bytes, written ranges are %v (%d bytes in total)", w.Size, r, s.written)
	}
	m.mu.Lock()
	defer m.mu.Unlock()
	// the type is only known to the client if some upload.file answer was received (an empty file downloaded
	// through the hash-driven reader needs none)
	if _, ok := typ.(*tg.StorageFilePng); !ok && m.answers > 0 {
		return kit.Bad(pre+"type", "every server answer carried storage.filePng, the download reported %v", typ)
	}
	if cdnMock != nil && cdnMock.asked.Load() > 0 {
		return kit.Bad(pre+"cdn-client-without-redirect", "a CDN client was requested although the master never redirected")
	}
	out := pre + w.Mode
	if w.SinkFailAt > 0 {
		out += "/sink-failure-unreached"
	}
	if w.HoldSet {
		out += "/held-retry"
		if m.guardFired.Load() {
			out += "/hold-released-by-guard"
		}
	}
	if fatal > 0 {
		out += "/exact-file-despite-fatal-answer"
	}
	switch {
	case len(w.Faults) > 0 && m.injected == len(w.Faults):
		out += "/retried"
	case len(w.Faults) > 0:
		out += "/faults-partly-unreached"
	}
	if w.Size%int64(w.PartSize) == 0 {
		out += "/exact-multiple"
	}
	return kit.OKo(out)
}

// faultPatterns: every assignment of a fault sequence (answers to attempts 0,1,.. for that offset) to the parts
// 0..parts-1 with at most maxFaults faults in total.
func faultPatterns(parts int, kinds []string, maxFaults int) [][]fault {
	var out [][]fault
	var rec func(p, left int, acc []fault)
	rec = func(p, left int, acc []fault) {
		if p == parts {
			out = append(out, append([]fault(nil), acc...))
			return
		}
		var seq func(a int, acc2 []fault)
		seq = func(a int, acc2 []fault) {
			rec(p+1, left-a, acc2)
			if a == left {
				return
			}
			for _, k := range kinds {
				seq(a+1, append(append([]fault(nil), acc2...), fault{p, a, k}))
			}
		}
		seq(0, acc)
	}
	rec(0, maxFaults, nil)
	return out
}

func main() {
	kit.Main("C33", "exploration", func(c *kit.Ctx) {
		reffiles.InstallInstantClock()
		down := kit.NewFamily(c, "download", evalDownload)
		if c.Replaying() {
			return
		}
		c.Rule("family download: real Builder.Stream / Builder.Parallel against a mock serving a synthetic file. (1) fault grid: part size 4 KiB " +
			"(thorough also 64 KiB) x size in {0,1,ps-1,ps,ps+1,2ps-1,2ps,2ps+1,3ps} x {stream, parallel with 1..8 threads} x every assignment of " +
			"<= 2 (thorough 3) consecutive-attempt faults to the requests for parts 0..min(n,3) (n = the request that returns the short/empty block) " +
			"x kinds {FLOOD_WAIT, rpc Timeout, net timeout, deadline exceeded, non-retryable FILE_REFERENCE_EXPIRED} (thorough + FLOOD_PREMIUM_WAIT); (2) sizes {3ps+1,5ps+7,8ps,9ps-1,16ps,16ps+1,33ps} x part sizes " +
			"{1 KiB, 4 KiB, 128 KiB, 512 KiB} x stream/parallel 1..8 threads, no fault and one fault on the last request; (3) WithVerify(true) " +
			"(hash windows of 2 part sizes) over grid (1) sizes without faults and with single faults; (4) one large file (quick 64 MiB, thorough 1 GiB + 5 bytes, 512 KiB parts, " +
			"stream and 8 threads); (5) forced order: sizes {ps+100,2ps+100,3ps+100,5ps+7,3ps} x threads {2,3,8} (thorough {2,3,4,5,8}) x held part k < final part: the first " +
			"request for part k gets FLOOD_WAIT / rpc Timeout and its retry is answered (with FILE_REFERENCE_EXPIRED, or with the data) only after the final block of the file has " +
			"been written (channel-ordered in the mock, 3 (thorough 8) repetitions). distinct = distinct witnesses. Oracle: no error unless a non-retryable answer was given " +
			"(then the download either fails or writes exactly the file; success with missing bytes = class fatal-error-swallowed), every written byte equals the file byte at its position, " +
			"the written ranges are exactly [0,size) with no byte written twice, reported type = the type every answer carried.")
		c.Rule("(6) options / entry points {WithAllowCDN(false), WithAllowCDN(true) with a client that has no CDN transport, WithAllowCDN(true) with a CDN provider while the master never " +
			"redirects (no CDN client may be requested), WithRetryHandler, Downloader.Web (upload.getWebFile)} x part size 4 KiB x grid (1) sizes x {stream, parallel 1/3/8} x every single fault of every " +
			"kind on requests 0..3 + one 3-fault pattern, and WithVerify(true) with single faults (not for web files, which have no hashes): same oracle, classes prefixed <option>:. " +
			"(7) failing sink: sizes {1, ps+1, 2ps+1, 3ps, 5ps+7} x {stream, parallel 1/2/3/8} x the k-th Write/WriteAt (k = 1..number of blocks) returns an error after taking 0 bytes or half of the " +
			"block x {no fault, FLOOD_WAIT on request 0, rpc Timeout on the last block} (+ WithVerify(true) without faults). Oracle: a download whose sink refused a block cannot have written the file, so it " +
			"must not report success (class sink-error-swallowed); any error is accepted.")
		c.Assume("default goroutine schedule only; the <=2-preemption interleaving part of the plan needs the controlled scheduler and is not covered here; " +
			"the mock answers requests beyond the end of the file with an empty block; in (5) the enforced order is 'final block written (empty final block: answered) " +
			"before the held retry is answered'; the few instructions between a worker's hand-over of the final block and its end-of-file signal are not controlled (a miss is possible there, a false alarm is not); a held retry has wall-clock liveness guards (300 ms after the final answer, 3 s overall) that only release the hold - they never fire on the unchanged tree and are not part of any oracle; clock.System is replaced by an instant clock so FLOOD_WAIT does not sleep")

		type mt struct {
			mode string
			th   int
		}
		modes := []mt{{"stream", 1}}
		for th := 1; th <= 8; th++ {
			modes = append(modes, mt{"parallel", th})
		}
		kinds := []string{"flood", "timeout-rpc", "timeout-net", "deadline", "fatal"}
		maxF := 2
		pss := []int{4 * kib}
		if c.Thorough() {
			kinds = append(kinds, "premium")
			maxF = 3
			pss = append(pss, 64*kib)
		}
		var ws []wDown
		for _, ps := range pss {
			p := int64(ps)
			for _, size := range []int64{0, 1, p - 1, p, p + 1, 2*p - 1, 2 * p, 2*p + 1, 3 * p} {
				reqs := int(size/p) + 1
				if reqs > 4 {
					reqs = 4
				}
				for _, md := range modes {
					for _, fp := range faultPatterns(reqs, kinds, maxF) {
						ws = append(ws, wDown{Size: size, PartSize: ps, Mode: md.mode, Threads: md.th, Faults: fp})
					}
					// (3) verified reader
					for _, fp := range faultPatterns(reqs, []string{"flood", "timeout-rpc", "fatal"}, 1) {
						ws = append(ws, wDown{Size: size, PartSize: ps, Mode: md.mode, Threads: md.th, Verify: true, Faults: fp})
					}
				}
			}
		}
		for _, ps := range []int{1 * kib, 4 * kib, 128 * kib, 512 * kib} {
			p := int64(ps)
			for _, size := range []int64{3*p + 1, 5*p + 7, 8 * p, 9*p - 1, 16 * p, 16*p + 1, 33 * p} {
				for _, md := range modes {
					last := int(size / p)
					for _, fp := range [][]fault{nil, {{last, 0, "flood"}}, {{last - 1, 0, "timeout-rpc"}, {last, 0, "timeout-net"}}} {
						ws = append(ws, wDown{Size: size, PartSize: ps, Mode: md.mode, Threads: md.th, Faults: fp})
					}
				}
			}
		}
		// (5) forced order: the retry of an earlier part is answered only after the final block went through
		reps := 3
		holdThreads := []int{2, 3, 8}
		if c.Thorough() {
			reps = 8
			holdThreads = []int{2, 3, 4, 5, 8}
		}
		for _, size := range []int64{4*kib + 100, 2*4*kib + 100, 3*4*kib + 100, 5*4*kib + 7, 3 * 4 * kib} {
			last := int(size / (4 * kib))
			for _, th := range holdThreads {
				for k := 0; k < last; k++ {
					for _, first := range []string{"flood", "timeout-rpc"} {
						for _, second := range []string{"fatal", ""} {
							fp := []fault{{k, 0, first}}
							if second != "" {
								fp = append(fp, fault{k, 1, second})
							}
							for rp := 0; rp < reps; rp++ {
								ws = append(ws, wDown{Size: size, PartSize: 4 * kib, Mode: "parallel", Threads: th, Faults: fp, Hold: k, HoldSet: true, Rep: rp})
							}
						}
					}
				}
			}
		}
		// (6) non-default options and the second entry point (web files): same reader/stream/parallel code behind another schema
		{
			optModes := []mt{{"stream", 1}, {"parallel", 1}, {"parallel", 3}, {"parallel", 8}}
			p := int64(4 * kib)
			for _, opt := range []string{"nocdn", "allowcdn-noprovider", "allowcdn", "retry-handler", "web"} {
				for _, size := range []int64{0, 1, p - 1, p, p + 1, 2*p - 1, 2 * p, 2*p + 1, 3 * p} {
					reqs := int(size/p) + 1
					if reqs > 4 {
						reqs = 4
					}
					for _, md := range optModes {
						for _, fp := range faultPatterns(reqs, kinds, 1) {
							ws = append(ws, wDown{Size: size, PartSize: 4 * kib, Mode: md.mode, Threads: md.th, Faults: fp, Opt: opt})
						}
						if size >= p {
							ws = append(ws, wDown{Size: size, PartSize: 4 * kib, Mode: md.mode, Threads: md.th, Opt: opt,
								Faults: []fault{{0, 0, "flood"}, {0, 1, "timeout-rpc"}, {1, 0, "timeout-net"}}})
						}
						if opt == "web" {
							continue // web files have no hashes
						}
						for _, fp := range faultPatterns(reqs, []string{"flood", "timeout-rpc", "fatal"}, 1) {
							ws = append(ws, wDown{Size: size, PartSize: 4 * kib, Mode: md.mode, Threads: md.th, Verify: true, Faults: fp, Opt: opt})
						}
					}
				}
			}
		}
		// (7) the sink fails on its k-th write
		for _, size := range []int64{1, 4*kib + 1, 2*4*kib + 1, 3 * 4 * kib, 5*4*kib + 7} {
			blocks := int((size + 4*kib - 1) / (4 * kib))
			for _, md := range []mt{{"stream", 1}, {"parallel", 1}, {"parallel", 2}, {"parallel", 3}, {"parallel", 8}} {
				for k := 1; k <= blocks; k++ {
					for _, half := range []bool{false, true} {
						for _, fp := range [][]fault{nil, {{0, 0, "flood"}}, {{blocks - 1, 0, "timeout-rpc"}}} {
							ws = append(ws, wDown{Size: size, PartSize: 4 * kib, Mode: md.mode, Threads: md.th, Faults: fp, SinkFailAt: k, SinkHalf: half})
							if len(fp) == 0 {
								ws = append(ws, wDown{Size: size, PartSize: 4 * kib, Mode: md.mode, Threads: md.th, Verify: true, SinkFailAt: k, SinkHalf: half})
							}
						}
					}
				}
			}
		}
		large := int64(64 * mib)
		if c.Thorough() {
			large = 1024*mib + 5
		}
		ws = append(ws, wDown{Size: large, PartSize: 512 * kib, Mode: "stream", Threads: 1, Faults: []fault{{7, 0, "flood"}}})
		ws = append(ws, wDown{Size: large, PartSize: 512 * kib, Mode: "parallel", Threads: 8, Faults: []fault{{7, 0, "flood"}, {7, 1, "deadline"}}})
		sort.SliceStable(ws, func(i, j int) bool { return ws[i].Size < ws[j].Size })
		kit.Parallel(len(ws), 16, func(i int) {
			if !c.Expired() {
				down.Eval(ws[i])
			}
		})
		if c.Expired() {
			c.NotExhaustive("time budget hit; the grid of %d cases was not completed", len(ws))
		}
		c.Set("cases", len(ws))
		c.Set("largest_file_bytes", large)
		// E-SCHED companion: worker/writer interleavings on 1-4 part downloads (8 scenarios x 2 shards; thorough 10 x 2)
		units := 16
		if c.Thorough() {
			units = 20
		}
		c.ForkSched(units, 16)
	})
}
