// C33 (E-SCHED part): downloads reproduce the file under every interleaving of the worker threads and the writer.
package main

import (
	"context"
	"crypto/sha256"
	"fmt"

	"github.com/gotd/td/internal/verif/kit"
	"github.com/gotd/td/internal/verif/lib/reffiles"
	"github.com/gotd/td/internal/verif/lib/sx"
	"github.com/gotd/td/internal/verif/shim/vctx"
	"github.com/gotd/td/internal/verif/shim/vsched"
	"github.com/gotd/td/telegram/downloader"
	"github.com/gotd/td/tg"
	"github.com/gotd/td/tgerr"
)

type params struct {
	Size      int64  `json:"size"`
	Mode      string `json:"mode"` // parallel | stream
	Threads   int    `json:"threads"`
	Fault     string `json:"fault,omitempty"` // "" | "flood" (FLOOD_WAIT_0) | "timeout" (rpc Timeout): first attempt at FaultPart
	FaultPart int    `json:"fault_part"`
	Verify    bool   `json:"verify,omitempty"`
}

const (
	seed = 33
	ps   = 4096 // smallest part size the API allows
)

type mock struct {
	o        *sx.Obs
	p        params
	attempts map[int64]int
}

func (m *mock) UploadGetFile(_ context.Context, r *tg.UploadGetFileRequest) (tg.UploadFileClass, error) {
	vsched.Point("rpc-get-file")
	a := m.attempts[r.Offset]
	m.attempts[r.Offset] = a + 1
	if m.p.Fault != "" && a == 0 && r.Offset == int64(m.p.FaultPart)*ps {
		if m.p.Fault == "flood" {
			return nil, tgerr.New(420, "FLOOD_WAIT_0")
		}
		return nil, tgerr.New(-503, "Timeout")
	}
	n := 0
	if r.Offset < m.p.Size && r.Limit > 0 {
		n = r.Limit
		if int64(n) > m.p.Size-r.Offset {
			n = int(m.p.Size - r.Offset)
		}
	}
	return &tg.UploadFile{Type: &tg.StorageFilePng{}, Mtime: 1700000000, Bytes: reffiles.Bytes(seed, r.Offset, n)}, nil
}

func (m *mock) UploadGetFileHashes(_ context.Context, r *tg.UploadGetFileHashesRequest) ([]tg.FileHash, error) {
	vsched.Point("rpc-get-hashes")
	var out []tg.FileHash
	const window = 2 * ps
	for off := r.Offset - r.Offset%window; off < m.p.Size && len(out) < 4; off += window {
		n := int64(window)
		if n > m.p.Size-off {
			n = m.p.Size - off
		}
		out = append(out, tg.FileHash{Offset: off, Limit: int(n), Hash: sha(off, int(n))})
	}
	return out, nil
}

func (m *mock) UploadReuploadCDNFile(context.Context, *tg.UploadReuploadCDNFileRequest) ([]tg.FileHash, error) {
	return nil, fmt.Errorf("not a CDN file")
}
func (m *mock) UploadGetCDNFileHashes(context.Context, *tg.UploadGetCDNFileHashesRequest) ([]tg.FileHash, error) {
	return nil, fmt.Errorf("not a CDN file")
}
func (m *mock) UploadGetWebFile(context.Context, *tg.UploadGetWebFileRequest) (*tg.UploadWebFile, error) {
	return nil, fmt.Errorf("not a web file")
}

func sha(off int64, n int) []byte {
	h := sha256.Sum256(reffiles.Bytes(seed, off, n))
	return h[:]
}

type sink struct {
	o     *sx.Obs
	cover reffiles.Intervals
	pos   int64
	bad   string
}

func (s *sink) Write(b []byte) (int, error) { return s.WriteAt(b, s.pos) }

func (s *sink) WriteAt(b []byte, off int64) (int, error) {
	vsched.Point("sink-write")
	if i := reffiles.Mismatch(seed, off, b); i >= 0 && s.bad == "" {
		s.bad = fmt.Sprintf("byte %d written at offset %d differs from the file", i, off+int64(i))
	}
	s.cover.Add(off, off+int64(len(b)))
	if off+int64(len(b)) > s.pos {
		s.pos = off + int64(len(b))
	}
	return len(b), nil
}

func body(p params, o *sx.Obs) {
	m := &mock{o: o, p: p, attempts: map[int64]int{}}
	b := downloader.NewDownloader().WithPartSize(ps).Download(m, &tg.InputDocumentFileLocation{ID: 33, AccessHash: 3333}).WithThreads(p.Threads)
	if p.Verify {
		b = b.WithVerify(true)
	}
	s := &sink{o: o}
	var typ tg.StorageFileTypeClass
	var err error
	if p.Mode == "stream" {
		typ, err = b.Stream(vctx.Background(), s)
	} else {
		typ, err = b.Parallel(vctx.Background(), s)
	}
	if err != nil {
		o.Log("download-error %v", err)
		return
	}
	_, png := typ.(*tg.StorageFilePng)
	o.Log("done type-png=%v covers=%v dup=%v bad=%q ranges=%v", png, s.cover.Covers(p.Size), s.cover.Dup, s.bad, s.cover.Ranges())
}

func check(p params, o *sx.Obs, x *vsched.Sched) kit.Result {
	if x.StepLimit {
		return kit.Result{Outcome: "step-limit", Trivial: true}
	}
	if x.Deadlock {
		return kit.Bad("stuck", "download never finished: %v; %s", x.Blocked, o.String())
	}
	if o.Has("download-error") {
		return kit.Bad("unexpected-error", "%s", o.String())
	}
	for _, e := range o.Events {
		var png, covers, dup bool
		var bad string
		if n, _ := fmt.Sscanf(e, "done type-png=%t covers=%t dup=%t bad=%q", &png, &covers, &dup, &bad); n == 4 {
			switch {
			case bad != "":
				return kit.Bad("content", "%s", bad)
			case dup:
				return kit.Bad("duplicate", "bytes written twice: %s", e)
			case !covers:
				return kit.Bad("gap", "file of %d bytes not covered: %s", p.Size, e)
			case !png && p.Size > 0:
				return kit.Bad("type", "download reported a file type other than the one every answer carried")
			}
			return kit.OKo("complete")
		}
	}
	return kit.Bad("no-result", "%s", o.String())
}

func main() {
	kit.Main("C33", "exploration", func(c *kit.Ctx) {
		scs := []params{
			{2*ps + 100, "parallel", 2, "", 0, false}, {3 * ps, "parallel", 2, "", 0, false}, {2*ps + 100, "parallel", 3, "", 0, false},
			{2*ps + 100, "parallel", 2, "timeout", 0, false}, {2*ps + 100, "parallel", 2, "flood", 1, false}, {2*ps + 100, "parallel", 2, "", 0, true},
			{2*ps + 100, "stream", 1, "timeout", 1, false}, {ps, "parallel", 2, "", 0, false},
		}
		if c.Thorough() {
			scs = append(scs, params{3*ps + 1, "parallel", 3, "timeout", 0, false}, params{2*ps + 100, "parallel", 2, "timeout", 1, true})
		}
		mk := func(p params) sx.Scenario[params] {
			return sx.Scenario[params]{Name: "download", Params: p, MaxSteps: 8000, FreeBound: 6, Body: body, Check: check}
		}
		if c.Replaying() {
			sx.Explore(c, mk(scs[0]), 0, 0, 1)
			return
		}
		bound := 2
		c.Rule("E-SCHED part: real downloader (instrumented telegram/downloader, tdsync, syncio, tgerr), part size 4 KiB, files of 1-4 parts, 1-3 threads, "+
			"parallel/stream/verified, optional Timeout/FLOOD_WAIT_0 on the first attempt of one part; mock RPC and sink writes are scheduling points; every "+
			"schedule with <= %d preemptions and <= 6 non-default free choices; oracle: written bytes equal the file, no gap, no duplicate, type reported.", bound)
		if c.Shard < 0 {
			return
		}
		sx.Explore(c, mk(scs[c.Shard%len(scs)]), bound, c.Shard/len(scs), c.Shards/len(scs))
	})
}
