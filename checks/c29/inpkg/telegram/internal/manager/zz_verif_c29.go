//go:build verif

package manager

import (
	"context"

	"github.com/gotd/td/bin"
)

// VerifC29Proto is the method set of the MTProto layer below a manager.Conn.
type VerifC29Proto interface {
	Invoke(ctx context.Context, input bin.Encoder, output bin.Decoder) error
	Run(ctx context.Context, f func(ctx context.Context) error) error
	Ping(ctx context.Context) error
}

// VerifC29SetProto replaces the MTProto layer of an unstarted connection.
func (c *Conn) VerifC29SetProto(p VerifC29Proto) { c.proto = p }
