//go:build verif

package telegram

import (
	"github.com/gotd/td/mtproto"
	"github.com/gotd/td/pool"
	"github.com/gotd/td/telegram/internal/manager"
)

// VerifC29WrapCreate makes every connection the client creates from now on pass through wrap
// (which replaces its MTProto layer) and re-creates the primary connection that NewClient made.
func (c *Client) VerifC29WrapCreate(wrap func(conn *manager.Conn)) {
	orig := c.create
	c.create = func(d mtproto.Dialer, mode manager.ConnMode, appID int, opts mtproto.Options, connOpts manager.ConnOptions) pool.Conn {
		pc := orig(d, mode, appID, opts, connOpts)
		wrap(pc.(*manager.Conn))
		return pc
	}
	c.conn = c.createPrimaryConn(nil)
}
