//go:build verif

package mtproto

import (
	"github.com/gotd/td/bin"
	"github.com/gotd/td/transport"
)

// VerifC29NewConn builds an unstarted Conn wired to the given transport (what connect() does after dialing).
func VerifC29NewConn(opt Options, tr transport.Conn) (*Conn, error) {
	c := New(nil, opt)
	c.conn = tr
	if err := c.newSessionID(); err != nil {
		return nil, err
	}
	return c, nil
}

// VerifC29HandleMessage delivers an already decrypted server message.
func (c *Conn) VerifC29HandleMessage(msgID int64, data []byte) error {
	return c.handleMessage(msgID, &bin.Buffer{Buf: data})
}

// VerifC29Die does what handleClose does when the connection is lost: it force-closes the rpc engine.
func (c *Conn) VerifC29Die() { c.rpc.ForceClose() }
