//go:build verif

package pool

// VerifC29Retryable exposes the pool's retry classification.
func VerifC29Retryable(err error) bool { return errRetryableOnNewConn(err) }
