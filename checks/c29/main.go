// C29: requests survive primary connection loss without duplicate execution.
package main

import (
	"context"
	"errors"
	"fmt"
	"time"

	"github.com/cenkalti/backoff/v4"

	"github.com/gotd/td/bin"
	"github.com/gotd/td/crypto"
	"github.com/gotd/td/internal/verif/kit"
	"github.com/gotd/td/internal/verif/lib/refcrypto"
	"github.com/gotd/td/internal/verif/lib/refsession"
	"github.com/gotd/td/internal/verif/lib/sx"
	"github.com/gotd/td/internal/verif/shim/vctx"
	"github.com/gotd/td/internal/verif/shim/vsched"
	"github.com/gotd/td/mtproto"
	"github.com/gotd/td/pool"
	"github.com/gotd/td/rpc"
	"github.com/gotd/td/telegram"
	"github.com/gotd/td/telegram/internal/manager"
	"github.com/gotd/td/tg"
)

type params struct {
	// what the server does with the user request on the first connection
	Server string `json:"server"` // "silent" (no ack, no answer) | "ack" (ack, no answer) | "answer"
	// when the first connection is lost: "after-tx" (any time after the user request was transmitted on it),
	// "after-ack" (any time after the ack delivery completed), "anytime" (any time after it became ready), "never"
	Kill  string `json:"kill"`
	Close string `json:"close"` // "" | "anytime" (the application closes the client at an arbitrary point) | "after-kill"
	Calls int    `json:"calls"` // concurrent user invocations (1..2)
}

const userReq = tg.HelpGetNearestDCRequestTypeID

type wire struct {
	msgID int64
	typ   uint32
}

// standIn replaces mtproto.Conn below a real manager.Conn: a real rpc.Engine, message ids, and a scripted server.
type standIn struct {
	k      int
	w      *world
	mc     *manager.Conn
	eng    *rpc.Engine
	nextID int64
	inbox  []wire
	killed bool
	ended  bool
	ready  bool
}

type world struct {
	o               *sx.Obs
	p               params
	conns           []*standIn
	ackDone, txDone bool // user request acked / transmitted on connection 1
	closed          bool
}

func typeOf(in bin.Encoder) uint32 {
	// unwrap invokeWithLayer / initConnection / invokeWithoutUpdates to the innermost query
	for {
		switch v := in.(type) {
		case *tg.InvokeWithLayerRequest:
			in = v.Query
		case *tg.InitConnectionRequest:
			in = v.Query
		case *tg.InvokeWithoutUpdatesRequest:
			in = v.Query
		case interface{ TypeID() uint32 }:
			return v.TypeID()
		default:
			// manager wraps the user input in an unexported no-op decoder that embeds the encoder
			var b bin.Buffer
			if err := in.Encode(&b); err != nil {
				return 0
			}
			id, _ := b.PeekID()
			return id
		}
	}
}

func (s *standIn) Ping(ctx context.Context) error { return nil }

func (s *standIn) Invoke(ctx context.Context, in bin.Encoder, out bin.Decoder) error {
	s.nextID += 4
	id := int64(s.k)<<32 | s.nextID
	if err := s.eng.Do(ctx, rpc.Request{MsgID: id, SeqNo: int32(s.nextID / 2), Input: in, Output: out}); err != nil {
		return fmt.Errorf("rpcDoRequest: %w", err)
	}
	return nil
}

func ctxDone(ctx context.Context) bool {
	select {
	case <-ctx.Done():
		return true
	default:
		return false
	}
}

func (s *standIn) Run(ctx context.Context, f func(ctx context.Context) error) error {
	o := s.w.o
	o.Log("conn%d run", s.k)
	s.eng = rpc.New(func(ctx context.Context, msgID int64, seqNo int32, in bin.Encoder) error {
		t := typeOf(in)
		if s.ended {
			// a write to a connection that is already lost disappears (as a TCP write to a dead peer does)
			o.Log("tx-lost conn%d msg=%x step=%d", s.k, msgID, vsched.Step())
			return nil
		}
		o.Log("tx conn%d msg=%x type=%x step=%d", s.k, msgID, t, vsched.Step())
		if t == userReq && s.k == 1 {
			s.w.txDone = true
		}
		s.inbox = append(s.inbox, wire{msgID, t})
		return nil
	}, rpc.Options{Clock: sx.Clock{}, RetryInterval: time.Hour, MaxRetries: 3, DropHandler: func(rpc.Request) error { return nil }})
	var ferr error
	fdone := false
	vsched.GoNamed(fmt.Sprintf("conn%d-init", s.k), func() {
		ferr = f(ctx)
		fdone = true
	})
	vsched.GoDaemon(fmt.Sprintf("server%d", s.k), s.server)
	vsched.Cond(fmt.Sprintf("conn%d-run", s.k), func() bool { return s.killed || ctxDone(ctx) || (fdone && ferr != nil) })
	s.ended = true
	o.Log("conn%d end killed=%v step=%d", s.k, s.killed, vsched.Step())
	s.eng.ForceClose() // what mtproto.Conn.handleClose does
	switch {
	case s.killed:
		return errors.New("connection lost")
	case fdone && ferr != nil:
		return ferr
	}
	return ctx.Err()
}

// server answers the requests of one connection.
func (s *standIn) server() {
	o := s.w.o
	first := true
	for i := 0; ; i++ {
		vsched.Cond(fmt.Sprintf("server%d-await", s.k), func() bool { return len(s.inbox) > i || s.ended })
		if len(s.inbox) <= i {
			return
		}
		m := s.inbox[i]
		if first {
			first = false
			_ = s.mc.OnSession(mtproto.Session{ID: int64(s.k), Key: s.w.key(), Salt: int64(100 + s.k)})
		}
		answer := func(obj bin.Encoder) {
			var b bin.Buffer
			_ = obj.Encode(&b)
			_ = s.eng.NotifyResult(m.msgID, &b)
		}
		switch {
		case m.typ == tg.HelpGetConfigRequestTypeID:
			s.eng.NotifyAcks([]int64{m.msgID})
			answer(&tg.Config{ThisDC: 2})
			s.ready = true
		case m.typ == userReq && s.k == 1:
			switch s.w.p.Server {
			case "silent":
			case "ack":
				o.Log("ack-begin conn1 step=%d", vsched.Step())
				// servers batch acknowledgements: ids of already finished requests may precede ours
				s.eng.NotifyAcks([]int64{s.inbox[0].msgID, m.msgID})
				o.Log("ack-done conn1 step=%d", vsched.Step())
				s.w.ackDone = true
			case "answer":
				s.eng.NotifyAcks([]int64{m.msgID})
				answer(&tg.NearestDC{Country: "conn1", ThisDC: 2, NearestDC: 2})
			}
		case m.typ == userReq:
			s.eng.NotifyAcks([]int64{m.msgID})
			answer(&tg.NearestDC{Country: fmt.Sprintf("conn%d", s.k), ThisDC: 2, NearestDC: 2})
		default:
			s.eng.NotifyAcks([]int64{m.msgID})
		}
	}
}

func (w *world) key() crypto.AuthKey {
	var k crypto.Key
	copy(k[:], kit.Pattern("stream:c29key", 256))
	return k.WithID()
}

func body(p params, o *sx.Obs) {
	w := &world{o: o, p: p}
	c := telegram.NewClient(1, "hash", telegram.Options{
		NoUpdates: true, DC: 2, Clock: sx.Clock{}, Random: kit.NewStream(9),
		ReconnectionBackoff: func() backoff.BackOff { return backoff.NewConstantBackOff(time.Second) },
		RetryInterval:       time.Hour,
	})
	c.VerifC29WrapCreate(func(mc *manager.Conn) {
		s := &standIn{k: len(w.conns) + 1, w: w, mc: mc}
		w.conns = append(w.conns, s)
		mc.VerifC29SetProto(s)
	})
	root, cancel := vctx.WithCancel(vctx.Background())
	var g sx.Group
	g.Go("client", func() {
		err := c.Run(root, func(ctx context.Context) error {
			o.Log("ready")
			var ug sx.Group
			for i := 1; i <= p.Calls; i++ {
				i := i
				ug.Go(fmt.Sprintf("user%d", i), func() {
					var res tg.NearestDC
					o.Log("call-begin %d step=%d", i, vsched.Step())
					err := c.Invoke(ctx, &tg.HelpGetNearestDCRequest{}, &res)
					o.Log("call-end %d err=%v via=%s", i, err != nil, res.Country)
					if err != nil {
						o.Log("call-error %d %v", i, err)
					}
				})
			}
			ug.Wait()
			return nil
		})
		o.Log("run-end err=%v", err != nil)
		if err != nil {
			o.Log("run-error %v", err)
		}
		w.closed = true
		// a new invocation on the closed client must return instead of waiting for a reconnect
		var res tg.NearestDC
		err = c.Invoke(vctx.Background(), &tg.HelpGetNearestDCRequest{}, &res)
		o.Log("late-call-end err=%v", err != nil)
	})
	if p.Kill != "never" {
		g.Go("kill", func() {
			vsched.Cond("await-kill-point", func() bool {
				if w.closed {
					return true
				}
				if len(w.conns) == 0 || !w.conns[0].ready {
					return false
				}
				switch p.Kill {
				case "after-tx":
					return w.txDone
				case "after-ack":
					return w.ackDone
				}
				return true
			})
			if w.closed {
				return
			}
			o.Log("kill conn1 step=%d", vsched.Step())
			w.conns[0].killed = true
		})
	}
	if p.Close != "" {
		g.Go("close", func() {
			if p.Close == "after-kill" {
				vsched.Cond("await-kill", func() bool { return w.closed || (len(w.conns) > 0 && w.conns[0].ended) })
			}
			o.Log("close step=%d", vsched.Step())
			cancel()
		})
	}
	g.Wait()
	cancel()
}

// ---- connection-level scenario: the real mtproto.Conn.Invoke (bad_server_salt re-send) when the connection dies ----

type cparams struct {
	// what the server does with the deciding transmission (the re-sent request, or the only one with First=plain)
	Resend string `json:"resend"` // "silent" | "ack"
	// First: "" = the first transmission is rejected with bad_server_salt and the re-send is the transmission that decides;
	// "plain" = no rejection: the first transmission itself is {unacknowledged, acknowledged} when the connection dies
	// (Conn.Invoke's ordinary error path, which wraps the engine's error, instead of its re-send path, which does not)
	First string `json:"first,omitempty"`
}

var c29key = kit.Pattern("stream:c29-conn-key", 256)

func cbody(p cparams, o *sx.Obs) {
	var k crypto.AuthKey
	copy(k.Value[:], c29key)
	copy(k.ID[:], refcrypto.AuthKeyID(c29key))
	cli, srv := sx.NewPipe(nil, "c", "s")
	conn, err := mtproto.VerifC29NewConn(mtproto.Options{
		Clock: sx.Clock{}, Random: kit.NewStream(29), Cipher: crypto.NewClientCipher(kit.NewStream(30)), Key: k, Salt: 0x1111, RetryInterval: time.Hour,
	}, cli)
	if err != nil {
		panic(err)
	}
	var g sx.Group
	resent, acked, done := false, false, false
	g.Go("invoke", func() {
		err := conn.Invoke(vctx.Background(), &tg.HelpGetNearestDCRequest{}, &tg.NearestDC{})
		retry := false
		if err != nil {
			retry = pool.VerifC29Retryable(err)
		}
		o.Log("invoke-ret err=%v retryable=%v acked=%v", err != nil, retry, acked)
		if err != nil {
			o.Log("invoke-error %v", err)
		}
		done = true
	})
	vsched.GoDaemon("server", func() {
		n := 0
		for {
			vsched.Cond("srv-await", func() bool { return srv.Pending() > 0 })
			pl, err := refsession.Open(c29key, 0, srv.TryRecv())
			if err != nil {
				o.Log("frame-undecryptable")
				return
			}
			id, _ := (&bin.Buffer{Buf: pl.Data()}).PeekID()
			if id != tg.HelpGetNearestDCRequestTypeID && id != tg.InvokeWithLayerRequestTypeID {
				continue
			}
			n++
			o.Log("tx #%d msg=%d salt=%x step=%d", n, pl.MsgID, pl.Salt, vsched.Step())
			switch {
			case n == 1 && p.First != "plain":
				_ = conn.VerifC29HandleMessage(0x6553f10000000005, refsession.BadServerSalt(pl.MsgID, pl.SeqNo, 48, 0x2222))
			case n == 2 || (n == 1 && p.First == "plain"):
				resent = true
				if p.Resend == "ack" {
					_ = conn.VerifC29HandleMessage(0x6553f10000000009, refsession.MsgsAck(pl.MsgID))
					acked = true
					o.Log("ack-done step=%d", vsched.Step())
				}
			}
		}
	})
	g.Go("kill", func() {
		// the connection is lost once the re-sent request is on the wire (and, in the ack variant, acknowledged)
		vsched.Cond("await-kill-point", func() bool { return done || (resent && (p.Resend != "ack" || acked)) })
		if done {
			return
		}
		o.Log("die step=%d", vsched.Step())
		conn.VerifC29Die()
	})
	g.Wait()
}

func ccheck(p cparams, o *sx.Obs, x *vsched.Sched) kit.Result {
	if x.StepLimit {
		return kit.Result{Outcome: "step-limit", Trivial: true}
	}
	if len(x.TimerFires) > 0 {
		return kit.Result{Outcome: "retry-timer-fired", Trivial: true}
	}
	if x.Deadlock || !o.Has("invoke-ret") {
		return kit.Bad("conn-stuck", "Invoke never returned after the connection died: %v; %s", x.Blocked, o.String())
	}
	var bad, retry, acked bool
	for _, e := range o.Events {
		scan(e, "invoke-ret err=%t retryable=%t acked=%t", &bad, &retry, &acked)
	}
	if !o.Has("die") {
		return kit.Result{Outcome: "finished-before-loss", Trivial: true}
	}
	switch {
	case !bad:
		return kit.Bad("conn-success-without-result", "Invoke reported success although no result was ever delivered: %s", o.String())
	case p.Resend == "silent" && !retry:
		return kit.Bad("conn-unacked-not-retryable", "the request (its last transmission) was never acknowledged when the connection died, but Invoke's error is not one the pool/client re-send on a new connection: %s", o.String())
	case p.Resend == "ack" && retry:
		return kit.Bad("conn-acked-retryable", "the request (its last transmission) was acknowledged before the connection died, but Invoke's error is classified as safe to re-send: %s", o.String())
	}
	return kit.OKo(fmt.Sprintf("conn-level first=%s resend=%s retryable=%v", p.First, p.Resend, retry))
}

func scan(s, format string, a ...any) bool {
	n, err := fmt.Sscanf(s, format, a...)
	return err == nil && n == len(a)
}

func check(p params, o *sx.Obs, x *vsched.Sched) kit.Result {
	if x.StepLimit {
		return kit.Result{Outcome: "step-limit", Trivial: true}
	}
	if !o.Has("run-end") || !o.Has("late-call-end") {
		return kit.Bad("stuck", "the client or an invocation never returned: blocked %v; %s", x.Blocked, o.String())
	}
	closeStep, killStep, ackBegin, ackDone := 1<<30, 1<<30, 1<<30, 1<<30
	oldIDs, newIDs := map[int64]bool{}, map[int64]bool{}
	for _, e := range o.Events {
		var k, st int
		var id int64
		var typ uint32
		switch {
		case scan(e, "close step=%d", &st):
			closeStep = st
		case scan(e, "kill conn1 step=%d", &st):
			killStep = st
		case scan(e, "ack-begin conn1 step=%d", &st):
			ackBegin = st
		case scan(e, "ack-done conn1 step=%d", &st):
			ackDone = st
		case scan(e, "tx conn%d msg=%x type=%x step=%d", &k, &id, &typ, &st) && typ == userReq:
			// a retransmission of the same message id on the same connection is not a second execution
			if k == 1 {
				oldIDs[id] = true
			} else {
				newIDs[id] = true
			}
		}
	}
	txOld, txNew := len(oldIDs), len(newIDs)
	closed := closeStep < 1<<30
	ends, failed, viaNew := 0, 0, 0
	for _, e := range o.Events {
		var i int
		var bad bool
		var via string
		if scan(e, "call-end %d err=%t via=%s", &i, &bad, &via) || scan(e, "call-end %d err=%t via=", &i, &bad) {
			ends++
			if bad {
				failed++
			} else if via != "conn1" {
				viaNew++
			}
		}
	}
	outcome := fmt.Sprintf("ends=%d failed=%d txOld=%d txNew=%d closed=%v", ends, failed, txOld, txNew, closed)
	if p.Calls == 1 && killStep < 1<<30 && !closed {
		switch {
		case p.Server == "silent" && p.Kill == "after-tx":
			// never acknowledged, connection lost while pending: transparently re-sent once, result returned
			if ends != 1 || failed != 0 {
				return kit.Bad("unacked-not-retried", "the unacknowledged request did not complete successfully after the connection was replaced (%s)", outcome)
			}
			if txNew != 1 {
				return kit.Bad("unacked-resend-count", "the unacknowledged request was transmitted %d times on replacement connections (expected exactly once)", txNew)
			}
		case p.Server == "ack" && p.Kill == "after-ack":
			// acknowledged (delivery completed) before the connection was lost: never sent again, caller gets an error
			if txNew != 0 {
				return kit.Bad("acked-resent", "the request acknowledged on the lost connection (ack done at step %d, kill at step %d) was transmitted again %d time(s)", ackDone, killStep, txNew)
			}
			if ends != 1 || failed != 1 {
				return kit.Bad("acked-no-error", "the caller of the acknowledged request did not get an error (%s)", outcome)
			}
		}
	}
	if txOld > p.Calls {
		return kit.Bad("duplicate-on-old-connection", "%d distinct messages carried the %d request(s) on the first connection", txOld, p.Calls)
	}
	if p.Calls == 1 && txNew > 1 {
		return kit.Bad("duplicate-execution", "the request was transmitted %d times on replacement connections", txNew)
	}
	_, _ = ackBegin, viaNew
	return kit.OKo(outcome)
}

func main() {
	kit.Main("C29", "fault_enumeration", func(c *kit.Ctx) {
		scs := []params{
			// largest schedule trees first: the units of one run are started in this order
			{"silent", "after-tx", "", 2},
			{"silent", "anytime", "", 1},
			{"answer", "anytime", "", 1},
			{"silent", "after-tx", "", 1},
			{"silent", "after-tx", "after-kill", 1},
			{"ack", "after-ack", "anytime", 1},
			{"ack", "after-tx", "", 1},
			{"ack", "after-ack", "", 1},
			{"silent", "never", "anytime", 1},
			{"answer", "never", "", 1},
		}
		mk := func(p params) sx.Scenario[params] {
			fb := 2
			if c.Thorough() {
				fb = 3
			}
			return sx.Scenario[params]{Name: "reconnect", Params: p, MaxSteps: 20000, FreeBound: fb, SplitAt: 1, Body: body, Check: check}
		}
		cscs := []cparams{{Resend: "silent"}, {Resend: "ack"}, {Resend: "silent", First: "plain"}, {Resend: "ack", First: "plain"}}
		cmk := func(p cparams) sx.Scenario[cparams] {
			return sx.Scenario[cparams]{Name: "conn-badsalt", Params: p, MaxSteps: 8000, FreeBound: 6, Body: cbody, Check: ccheck}
		}
		if c.Replaying() {
			sx.Explore(c, mk(scs[0]), 0, 0, 1)
			sx.Explore(c, cmk(cscs[0]), 0, 0, 1)
			return
		}
		bound := 1 // (thorough widens the free-choice bound instead of the preemption bound: executions are long)
		c.Rule("real telegram.Client (Run, reconnectUntilClosed, runUntilRestart, replaceConn, invokeConn), real manager.Conn and rpc.Engine (all instrumented); "+
			"the MTProto layer is a stand-in with a scripted server; faults: the first connection is lost {after the request was transmitted, after its ack "+
			"completed, at any time, never} x server {silent, ack only, answers} x client close {none, any time, after the loss} x 1-2 concurrent calls; every "+
			"schedule with <= %d preemptions/early timers and a bounded number of non-default free choices. Oracle: nothing hangs (pending and late calls "+
			"return after close); an unacknowledged request is transmitted exactly once on the replacement connection and succeeds; a request whose ack "+
			"completed before the loss is never transmitted again and its caller gets an error; never more than one transmission per connection. Connection level: the real mtproto.Conn.Invoke whose first transmission is rejected with "+
			"bad_server_salt and whose re-send is {unacknowledged, acknowledged} when the connection dies, and (audit) the same without the rejection, i.e. the first transmission itself {unacknowledged, acknowledged} - Conn.Invoke's ordinary error path: the returned error must be classified retryable (pool's classifier) iff unacknowledged.", bound)
		type unit struct{ sc, shard, shards int }
		var units []unit
		for i := range scs {
			n := 4
			if scs[i].Calls > 1 || scs[i].Kill == "anytime" {
				n = 12 // the largest schedule trees: spread them over more processes
			}
			for k := 0; k < n; k++ {
				units = append(units, unit{i, k, n})
			}
		}
		var cunits []unit
		for i := range cscs {
			cunits = append(cunits, unit{-1 - i, 0, 1})
		}
		units = append(cunits, units...) // the small connection-level scenarios first
		if c.Fork(len(units), 16) {
			return
		}
		u := units[c.Shard]
		if u.sc < 0 {
			sx.Explore(c, cmk(cscs[-1-u.sc]), 2, 0, 1)
			return
		}
		sx.Explore(c, mk(scs[u.sc]), bound, u.shard, u.shards)
	})
}
