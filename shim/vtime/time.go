// Package vtime mirrors the part of package time that td uses; clocks and
// timers run on the scheduler's virtual time.
package vtime

import (
	"time"

	"github.com/gotd/td/internal/verif/shim/vsched"
)

type (
	Duration   = time.Duration
	Time       = time.Time
	Location   = time.Location
	Month      = time.Month
	Weekday    = time.Weekday
	ParseError = time.ParseError
)

const (
	Nanosecond  = time.Nanosecond
	Microsecond = time.Microsecond
	Millisecond = time.Millisecond
	Second      = time.Second
	Minute      = time.Minute
	Hour        = time.Hour

	Layout      = time.Layout
	ANSIC       = time.ANSIC
	UnixDate    = time.UnixDate
	RFC822      = time.RFC822
	RFC822Z     = time.RFC822Z
	RFC850      = time.RFC850
	RFC1123     = time.RFC1123
	RFC1123Z    = time.RFC1123Z
	RFC3339     = time.RFC3339
	RFC3339Nano = time.RFC3339Nano
	Kitchen     = time.Kitchen
	Stamp       = time.Stamp
	StampMilli  = time.StampMilli
	StampMicro  = time.StampMicro
	StampNano   = time.StampNano
	DateTime    = time.DateTime
	DateOnly    = time.DateOnly
	TimeOnly    = time.TimeOnly

	January   = time.January
	February  = time.February
	March     = time.March
	April     = time.April
	May       = time.May
	June      = time.June
	July      = time.July
	August    = time.August
	September = time.September
	October   = time.October
	November  = time.November
	December  = time.December
)

var (
	UTC   = time.UTC
	Local = time.Local
)

func Unix(sec, nsec int64) Time { return time.Unix(sec, nsec) }
func UnixMilli(ms int64) Time   { return time.UnixMilli(ms) }
func UnixMicro(us int64) Time   { return time.UnixMicro(us) }
func Date(y int, m Month, d, h, mi, s, ns int, l *Location) Time {
	return time.Date(y, m, d, h, mi, s, ns, l)
}
func Parse(layout, v string) (Time, error)        { return time.Parse(layout, v) }
func ParseDuration(s string) (Duration, error)    { return time.ParseDuration(s) }
func FixedZone(name string, off int) *Location    { return time.FixedZone(name, off) }
func LoadLocation(name string) (*Location, error) { return time.LoadLocation(name) }

func Now() Time                    { return vsched.Now() }
func Since(t Time) Duration        { return vsched.Now().Sub(t) }
func Until(t Time) Duration        { return t.Sub(vsched.Now()) }
func Sleep(d Duration)             { vsched.Sleep(d) }
func After(d Duration) <-chan Time { return vsched.NewTimer(d).C }
func Tick(d Duration) <-chan Time  { return vsched.NewTicker(d).C }

// Timer mirrors time.Timer.
type Timer struct {
	C <-chan Time
	t *vsched.Timer
}

func NewTimer(d Duration) *Timer {
	t := vsched.NewTimer(d)
	return &Timer{C: t.C, t: t}
}

func AfterFunc(d Duration, f func()) *Timer {
	t := vsched.AfterFunc(d, f)
	return &Timer{t: t}
}

func (t *Timer) Stop() bool            { return t.t.Stop() }
func (t *Timer) Reset(d Duration) bool { return t.t.Reset(d) }

// Ticker mirrors time.Ticker.
type Ticker struct {
	C <-chan Time
	t *vsched.Timer
}

func NewTicker(d Duration) *Ticker {
	if d <= 0 {
		panic("non-positive interval for NewTicker")
	}
	t := vsched.NewTicker(d)
	return &Ticker{C: t.C, t: t}
}

func (t *Ticker) Stop()            { t.t.Stop() }
func (t *Ticker) Reset(d Duration) { t.t.Reset(d) }
