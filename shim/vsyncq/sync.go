// Package vsyncq ("quiet") mirrors package sync for td packages that are not explored themselves but hand
// data between explored threads (bin.Pool, proto.MessageIDBuf, session storages, transport): the real
// primitives, no scheduling points - exactly the behaviour those packages have without instrumentation -
// plus the happens-before edges the race detector (vsched/race.go) needs in order not to report accesses
// that such a primitive orders.
package vsyncq

import (
	"sync"

	"github.com/gotd/td/internal/verif/shim/vsched"
)

type Locker = sync.Locker
type Map = sync.Map

type Mutex struct{ mu sync.Mutex }

func (m *Mutex) Lock() { m.mu.Lock(); vsched.Acquire(m) }
func (m *Mutex) TryLock() bool {
	if m.mu.TryLock() {
		vsched.Acquire(m)
		return true
	}
	return false
}
func (m *Mutex) Unlock() { vsched.Release(m); m.mu.Unlock() }

type RWMutex struct {
	mu sync.RWMutex
	r  byte // key of what readers release
}

func (m *RWMutex) Lock()    { m.mu.Lock(); vsched.Acquire(m); vsched.Acquire(&m.r) }
func (m *RWMutex) Unlock()  { vsched.Release(m); m.mu.Unlock() }
func (m *RWMutex) RLock()   { m.mu.RLock(); vsched.Acquire(m) }
func (m *RWMutex) RUnlock() { vsched.Release(&m.r); m.mu.RUnlock() }
func (m *RWMutex) TryLock() bool {
	if m.mu.TryLock() {
		vsched.Acquire(m)
		vsched.Acquire(&m.r)
		return true
	}
	return false
}
func (m *RWMutex) TryRLock() bool {
	if m.mu.TryRLock() {
		vsched.Acquire(m)
		return true
	}
	return false
}

type rlocker RWMutex

func (r *rlocker) Lock()           { (*RWMutex)(r).RLock() }
func (r *rlocker) Unlock()         { (*RWMutex)(r).RUnlock() }
func (m *RWMutex) RLocker() Locker { return (*rlocker)(m) }

type WaitGroup struct{ wg sync.WaitGroup }

func (w *WaitGroup) Add(d int) {
	if d < 0 {
		vsched.Release(w)
	}
	w.wg.Add(d)
}
func (w *WaitGroup) Done() { w.Add(-1) }
func (w *WaitGroup) Wait() { w.wg.Wait(); vsched.Acquire(w) }

type Once struct{ o sync.Once }

func (o *Once) Do(f func()) {
	o.o.Do(func() { f(); vsched.Release(o) })
	vsched.Acquire(o)
}

func OnceFunc(f func()) func() {
	var o Once
	return func() { o.Do(f) }
}

// Pool: a Put happens before the Get that returns the same item; every Get acquires everything put so far.
type Pool struct {
	New  func() any
	real sync.Pool
}

func (p *Pool) Get() any {
	p.real.New = p.New
	x := p.real.Get()
	vsched.Acquire(p)
	return x
}

func (p *Pool) Put(x any) {
	vsched.Release(p)
	p.real.Put(x)
}
