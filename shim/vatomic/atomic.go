// Package vatomic mirrors the part of sync/atomic that td uses, with a
// scheduling point before every operation.
package vatomic

import (
	"sync/atomic"

	"github.com/gotd/td/internal/verif/shim/vsched"
)

// pt: scheduling point, then acquire+release on the variable (Go atomics are sequentially consistent).
func pt(w string, p any) { vsched.PointS(w); vsched.AcqRel(p) }

func CompareAndSwapUint32(a *uint32, o, n uint32) bool {
	pt("a.cas", a)
	return atomic.CompareAndSwapUint32(a, o, n)
}
func CompareAndSwapInt32(a *int32, o, n int32) bool {
	pt("a.cas", a)
	return atomic.CompareAndSwapInt32(a, o, n)
}
func CompareAndSwapInt64(a *int64, o, n int64) bool {
	pt("a.cas", a)
	return atomic.CompareAndSwapInt64(a, o, n)
}
func CompareAndSwapUint64(a *uint64, o, n uint64) bool {
	pt("a.cas", a)
	return atomic.CompareAndSwapUint64(a, o, n)
}
func StoreInt32(a *int32, v int32)          { pt("a.store", a); atomic.StoreInt32(a, v) }
func StoreUint32(a *uint32, v uint32)       { pt("a.store", a); atomic.StoreUint32(a, v) }
func StoreInt64(a *int64, v int64)          { pt("a.store", a); atomic.StoreInt64(a, v) }
func StoreUint64(a *uint64, v uint64)       { pt("a.store", a); atomic.StoreUint64(a, v) }
func LoadInt32(a *int32) int32              { pt("a.load", a); return atomic.LoadInt32(a) }
func LoadUint32(a *uint32) uint32           { pt("a.load", a); return atomic.LoadUint32(a) }
func LoadInt64(a *int64) int64              { pt("a.load", a); return atomic.LoadInt64(a) }
func LoadUint64(a *uint64) uint64           { pt("a.load", a); return atomic.LoadUint64(a) }
func AddInt32(a *int32, d int32) int32      { pt("a.add", a); return atomic.AddInt32(a, d) }
func AddUint32(a *uint32, d uint32) uint32  { pt("a.add", a); return atomic.AddUint32(a, d) }
func AddInt64(a *int64, d int64) int64      { pt("a.add", a); return atomic.AddInt64(a, d) }
func AddUint64(a *uint64, d uint64) uint64  { pt("a.add", a); return atomic.AddUint64(a, d) }
func SwapInt32(a *int32, v int32) int32     { pt("a.swap", a); return atomic.SwapInt32(a, v) }
func SwapInt64(a *int64, v int64) int64     { pt("a.swap", a); return atomic.SwapInt64(a, v) }
func SwapUint32(a *uint32, v uint32) uint32 { pt("a.swap", a); return atomic.SwapUint32(a, v) }

type Bool struct{ v atomic.Bool }

func (b *Bool) Load() bool                    { pt("a.load", b); return b.v.Load() }
func (b *Bool) Store(x bool)                  { pt("a.store", b); b.v.Store(x) }
func (b *Bool) Swap(x bool) bool              { pt("a.swap", b); return b.v.Swap(x) }
func (b *Bool) CompareAndSwap(o, n bool) bool { pt("a.cas", b); return b.v.CompareAndSwap(o, n) }

type Int32 struct{ v atomic.Int32 }

func (b *Int32) Load() int32                    { pt("a.load", b); return b.v.Load() }
func (b *Int32) Store(x int32)                  { pt("a.store", b); b.v.Store(x) }
func (b *Int32) Swap(x int32) int32             { pt("a.swap", b); return b.v.Swap(x) }
func (b *Int32) CompareAndSwap(o, n int32) bool { pt("a.cas", b); return b.v.CompareAndSwap(o, n) }
func (b *Int32) Add(d int32) int32              { pt("a.add", b); return b.v.Add(d) }

type Int64 struct{ v atomic.Int64 }

func (b *Int64) Load() int64                    { pt("a.load", b); return b.v.Load() }
func (b *Int64) Store(x int64)                  { pt("a.store", b); b.v.Store(x) }
func (b *Int64) Swap(x int64) int64             { pt("a.swap", b); return b.v.Swap(x) }
func (b *Int64) CompareAndSwap(o, n int64) bool { pt("a.cas", b); return b.v.CompareAndSwap(o, n) }
func (b *Int64) Add(d int64) int64              { pt("a.add", b); return b.v.Add(d) }

type Uint32 struct{ v atomic.Uint32 }

func (b *Uint32) Load() uint32                    { pt("a.load", b); return b.v.Load() }
func (b *Uint32) Store(x uint32)                  { pt("a.store", b); b.v.Store(x) }
func (b *Uint32) Swap(x uint32) uint32            { pt("a.swap", b); return b.v.Swap(x) }
func (b *Uint32) CompareAndSwap(o, n uint32) bool { pt("a.cas", b); return b.v.CompareAndSwap(o, n) }
func (b *Uint32) Add(d uint32) uint32             { pt("a.add", b); return b.v.Add(d) }

type Uint64 struct{ v atomic.Uint64 }

func (b *Uint64) Load() uint64                    { pt("a.load", b); return b.v.Load() }
func (b *Uint64) Store(x uint64)                  { pt("a.store", b); b.v.Store(x) }
func (b *Uint64) Swap(x uint64) uint64            { pt("a.swap", b); return b.v.Swap(x) }
func (b *Uint64) CompareAndSwap(o, n uint64) bool { pt("a.cas", b); return b.v.CompareAndSwap(o, n) }
func (b *Uint64) Add(d uint64) uint64             { pt("a.add", b); return b.v.Add(d) }

type Pointer[T any] struct{ v atomic.Pointer[T] }

func (p *Pointer[T]) Load() *T                    { pt("a.load", p); return p.v.Load() }
func (p *Pointer[T]) Store(x *T)                  { pt("a.store", p); p.v.Store(x) }
func (p *Pointer[T]) Swap(x *T) *T                { pt("a.swap", p); return p.v.Swap(x) }
func (p *Pointer[T]) CompareAndSwap(o, n *T) bool { pt("a.cas", p); return p.v.CompareAndSwap(o, n) }

type Value struct{ v atomic.Value }

func (p *Value) Load() any                    { pt("a.load", p); return p.v.Load() }
func (p *Value) Store(x any)                  { pt("a.store", p); p.v.Store(x) }
func (p *Value) Swap(x any) any               { pt("a.swap", p); return p.v.Swap(x) }
func (p *Value) CompareAndSwap(o, n any) bool { pt("a.cas", p); return p.v.CompareAndSwap(o, n) }
