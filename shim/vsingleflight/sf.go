// Package vsingleflight mirrors golang.org/x/sync/singleflight on the scheduler.
package vsingleflight

import (
	"github.com/gotd/td/internal/verif/shim/vsched"
	"github.com/gotd/td/internal/verif/shim/vsync"
)

type call struct {
	wg    vsync.WaitGroup
	val   any
	err   error
	dups  int
	chans []chan<- Result
}

type Result struct {
	Val    any
	Err    error
	Shared bool
}

type Group struct {
	mu vsync.Mutex
	m  map[string]*call
}

func (g *Group) Do(key string, fn func() (any, error)) (v any, err error, shared bool) {
	g.mu.Lock()
	if g.m == nil {
		g.m = make(map[string]*call)
	}
	if c, ok := g.m[key]; ok {
		c.dups++
		g.mu.Unlock()
		c.wg.Wait()
		return c.val, c.err, true
	}
	c := new(call)
	c.wg.Add(1)
	g.m[key] = c
	g.mu.Unlock()
	g.doCall(c, key, fn)
	return c.val, c.err, c.dups > 0
}

func (g *Group) DoChan(key string, fn func() (any, error)) <-chan Result {
	ch := make(chan Result, 1)
	g.mu.Lock()
	if g.m == nil {
		g.m = make(map[string]*call)
	}
	if c, ok := g.m[key]; ok {
		c.dups++
		c.chans = append(c.chans, ch)
		g.mu.Unlock()
		return ch
	}
	c := &call{chans: []chan<- Result{ch}}
	c.wg.Add(1)
	g.m[key] = c
	g.mu.Unlock()
	vsched.Go(func() { g.doCall(c, key, fn) })
	return ch
}

func (g *Group) doCall(c *call, key string, fn func() (any, error)) {
	defer func() {
		g.mu.Lock()
		c.wg.Done()
		if g.m[key] == c {
			delete(g.m, key)
		}
		for _, ch := range c.chans {
			ch <- Result{c.val, c.err, c.dups > 0} // buffered(1), single send each
		}
		g.mu.Unlock()
	}()
	c.val, c.err = fn()
}

func (g *Group) Forget(key string) {
	g.mu.Lock()
	delete(g.m, key)
	g.mu.Unlock()
}
