// Package vatomicq ("quiet") mirrors the function form of sync/atomic for td packages that are not explored
// themselves: the real operation plus an acquire+release edge on the variable for the race detector.
package vatomicq

import (
	"sync/atomic"

	"github.com/gotd/td/internal/verif/shim/vsched"
)

func AddInt32(a *int32, d int32) int32     { vsched.AcqRel(a); return atomic.AddInt32(a, d) }
func AddInt64(a *int64, d int64) int64     { vsched.AcqRel(a); return atomic.AddInt64(a, d) }
func AddUint32(a *uint32, d uint32) uint32 { vsched.AcqRel(a); return atomic.AddUint32(a, d) }
func AddUint64(a *uint64, d uint64) uint64 { vsched.AcqRel(a); return atomic.AddUint64(a, d) }
func LoadInt32(a *int32) int32             { vsched.AcqRel(a); return atomic.LoadInt32(a) }
func LoadInt64(a *int64) int64             { vsched.AcqRel(a); return atomic.LoadInt64(a) }
func LoadUint32(a *uint32) uint32          { vsched.AcqRel(a); return atomic.LoadUint32(a) }
func LoadUint64(a *uint64) uint64          { vsched.AcqRel(a); return atomic.LoadUint64(a) }
func StoreInt32(a *int32, v int32)         { vsched.AcqRel(a); atomic.StoreInt32(a, v) }
func StoreInt64(a *int64, v int64)         { vsched.AcqRel(a); atomic.StoreInt64(a, v) }
func StoreUint32(a *uint32, v uint32)      { vsched.AcqRel(a); atomic.StoreUint32(a, v) }
func StoreUint64(a *uint64, v uint64)      { vsched.AcqRel(a); atomic.StoreUint64(a, v) }
func SwapInt32(a *int32, v int32) int32    { vsched.AcqRel(a); return atomic.SwapInt32(a, v) }
func SwapInt64(a *int64, v int64) int64    { vsched.AcqRel(a); return atomic.SwapInt64(a, v) }
func CompareAndSwapInt32(a *int32, o, n int32) bool {
	vsched.AcqRel(a)
	return atomic.CompareAndSwapInt32(a, o, n)
}
func CompareAndSwapInt64(a *int64, o, n int64) bool {
	vsched.AcqRel(a)
	return atomic.CompareAndSwapInt64(a, o, n)
}
func CompareAndSwapUint32(a *uint32, o, n uint32) bool {
	vsched.AcqRel(a)
	return atomic.CompareAndSwapUint32(a, o, n)
}

type Int32 struct{ v atomic.Int32 }

func (i *Int32) Load() int32                    { vsched.AcqRel(i); return i.v.Load() }
func (i *Int32) Store(x int32)                  { vsched.AcqRel(i); i.v.Store(x) }
func (i *Int32) Add(d int32) int32              { vsched.AcqRel(i); return i.v.Add(d) }
func (i *Int32) Swap(x int32) int32             { vsched.AcqRel(i); return i.v.Swap(x) }
func (i *Int32) CompareAndSwap(o, n int32) bool { vsched.AcqRel(i); return i.v.CompareAndSwap(o, n) }

type Int64 struct{ v atomic.Int64 }

func (i *Int64) Load() int64                    { vsched.AcqRel(i); return i.v.Load() }
func (i *Int64) Store(x int64)                  { vsched.AcqRel(i); i.v.Store(x) }
func (i *Int64) Add(d int64) int64              { vsched.AcqRel(i); return i.v.Add(d) }
func (i *Int64) Swap(x int64) int64             { vsched.AcqRel(i); return i.v.Swap(x) }
func (i *Int64) CompareAndSwap(o, n int64) bool { vsched.AcqRel(i); return i.v.CompareAndSwap(o, n) }

type Uint32 struct{ v atomic.Uint32 }

func (i *Uint32) Load() uint32                    { vsched.AcqRel(i); return i.v.Load() }
func (i *Uint32) Store(x uint32)                  { vsched.AcqRel(i); i.v.Store(x) }
func (i *Uint32) Add(d uint32) uint32             { vsched.AcqRel(i); return i.v.Add(d) }
func (i *Uint32) CompareAndSwap(o, n uint32) bool { vsched.AcqRel(i); return i.v.CompareAndSwap(o, n) }

type Uint64 struct{ v atomic.Uint64 }

func (i *Uint64) Load() uint64                    { vsched.AcqRel(i); return i.v.Load() }
func (i *Uint64) Store(x uint64)                  { vsched.AcqRel(i); i.v.Store(x) }
func (i *Uint64) Add(d uint64) uint64             { vsched.AcqRel(i); return i.v.Add(d) }
func (i *Uint64) CompareAndSwap(o, n uint64) bool { vsched.AcqRel(i); return i.v.CompareAndSwap(o, n) }

type Bool struct{ v atomic.Bool }

func (b *Bool) Load() bool                    { vsched.AcqRel(b); return b.v.Load() }
func (b *Bool) Store(x bool)                  { vsched.AcqRel(b); b.v.Store(x) }
func (b *Bool) Swap(x bool) bool              { vsched.AcqRel(b); return b.v.Swap(x) }
func (b *Bool) CompareAndSwap(o, n bool) bool { vsched.AcqRel(b); return b.v.CompareAndSwap(o, n) }

type Value = atomic.Value
