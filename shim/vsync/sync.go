// Package vsync mirrors the part of package sync that td uses, on top of the
// cooperative scheduler. During an exploration locks are purely virtual (one
// managed thread runs at a time); outside they are the real primitives.
package vsync

import (
	"runtime"
	"sync"

	"github.com/gotd/td/internal/verif/shim/vsched"
)

type Locker = sync.Locker

// Pool mirrors sync.Pool deterministically: inside an exploration it is a LIFO free list (every Put is
// found by the next Get — the most adversarial reuse, and reproducible); outside it is the real sync.Pool.
type Pool struct {
	New   func() any
	real  sync.Pool
	items []any
}

func (p *Pool) Get() any {
	if !vsched.Active() && !vsched.Dying() {
		p.real.New = p.New
		return p.real.Get()
	}
	vsched.PointS("pool.get")
	vsched.Acquire(p)
	if n := len(p.items); n > 0 {
		x := p.items[n-1]
		p.items = p.items[:n-1]
		return x
	}
	if p.New != nil {
		return p.New()
	}
	return nil
}

func (p *Pool) Put(x any) {
	if !vsched.Active() && !vsched.Dying() {
		p.real.Put(x)
		return
	}
	vsched.PointS("pool.put")
	vsched.Release(p)
	p.items = append(p.items, x)
}

type Map = sync.Map

// Mutex mirrors sync.Mutex.
type Mutex struct {
	mu     sync.Mutex
	locked bool // virtually locked
}

func (m *Mutex) Lock() {
	if !vsched.Active() {
		if vsched.Dying() {
			if !m.locked {
				m.locked = true // a dying goroutine's deferred code: never block
				return
			}
			runtime.Goexit()
		}
		m.mu.Lock()
		return
	}
	vsched.CondS("lock", func() bool { return !m.locked })
	m.locked = true
	vsched.Acquire(m)
}

func (m *Mutex) TryLock() bool {
	if !vsched.Active() && !vsched.Dying() {
		return m.mu.TryLock()
	}
	vsched.PointS("trylock")
	if m.locked {
		return false
	}
	m.locked = true
	vsched.Acquire(m)
	return true
}

func (m *Mutex) Unlock() {
	if m.locked {
		vsched.Release(m)
		m.locked = false
		return
	}
	if vsched.Active() {
		panic("vsync: unlock of unlocked mutex")
	}
	if vsched.Dying() {
		return
	}
	m.mu.Unlock()
}

// RWMutex mirrors sync.RWMutex (writer preference is not modelled: a reader
// may enter while a writer waits, which is one of the real schedules' outcomes).
type RWMutex struct {
	mu      sync.RWMutex
	writer  bool
	readers int
}

func (m *RWMutex) Lock() {
	if !vsched.Active() {
		if vsched.Dying() {
			if !m.writer && m.readers == 0 {
				m.writer = true
				return
			}
			runtime.Goexit()
		}
		m.mu.Lock()
		return
	}
	vsched.CondS("wlock", func() bool { return !m.writer && m.readers == 0 })
	m.writer = true
	vsched.Acquire(m)
	vsched.Acquire(&m.readers) // what readers released
}

func (m *RWMutex) Unlock() {
	if m.writer {
		vsched.Release(m)
		m.writer = false
		return
	}
	if vsched.Active() {
		panic("vsync: unlock of unlocked RWMutex")
	}
	if vsched.Dying() {
		return
	}
	m.mu.Unlock()
}

func (m *RWMutex) RLock() {
	if !vsched.Active() {
		if vsched.Dying() {
			if !m.writer {
				m.readers++
				return
			}
			runtime.Goexit()
		}
		m.mu.RLock()
		return
	}
	vsched.CondS("rlock", func() bool { return !m.writer })
	m.readers++
	vsched.Acquire(m)
}

func (m *RWMutex) RUnlock() {
	if m.readers > 0 {
		vsched.Release(&m.readers)
		m.readers--
		return
	}
	if vsched.Active() {
		panic("vsync: RUnlock of unlocked RWMutex")
	}
	if vsched.Dying() {
		return
	}
	m.mu.RUnlock()
}

func (m *RWMutex) TryLock() bool {
	if !vsched.Active() && !vsched.Dying() {
		return m.mu.TryLock()
	}
	vsched.PointS("trywlock")
	if m.writer || m.readers > 0 {
		return false
	}
	m.writer = true
	vsched.Acquire(m)
	vsched.Acquire(&m.readers)
	return true
}

func (m *RWMutex) TryRLock() bool {
	if !vsched.Active() && !vsched.Dying() {
		return m.mu.TryRLock()
	}
	vsched.PointS("tryrlock")
	if m.writer {
		return false
	}
	m.readers++
	vsched.Acquire(m)
	return true
}

type rlocker RWMutex

func (r *rlocker) Lock()   { (*RWMutex)(r).RLock() }
func (r *rlocker) Unlock() { (*RWMutex)(r).RUnlock() }

func (m *RWMutex) RLocker() Locker { return (*rlocker)(m) }

// WaitGroup mirrors sync.WaitGroup.
type WaitGroup struct {
	wg sync.WaitGroup
	n  int
	v  bool
}

func (w *WaitGroup) Add(d int) {
	if !vsched.Active() && !vsched.Dying() && !w.v {
		w.wg.Add(d)
		return
	}
	w.v = true
	vsched.PointS("wg.add")
	if d < 0 {
		vsched.Release(w)
	}
	w.n += d
	if w.n < 0 {
		panic("sync: negative WaitGroup counter")
	}
}

func (w *WaitGroup) Done() { w.Add(-1) }

func (w *WaitGroup) Wait() {
	if !vsched.Active() {
		if vsched.Dying() {
			if w.n == 0 {
				return
			}
			runtime.Goexit()
		}
		if w.v {
			if w.n == 0 {
				return
			}
			panic("vsync: WaitGroup used inside and waited outside an exploration")
		}
		w.wg.Wait()
		return
	}
	vsched.CondS("wg.wait", func() bool { return w.n == 0 })
	vsched.Acquire(w)
}

// Go mirrors (*sync.WaitGroup).Go of Go 1.25.
func (w *WaitGroup) Go(f func()) {
	w.Add(1)
	vsched.Go(func() {
		defer w.Done()
		f()
	})
}

// Once mirrors sync.Once.
type Once struct {
	m    Mutex
	done bool
}

func (o *Once) Do(f func()) {
	if o.done && !vsched.Active() {
		return
	}
	o.m.Lock()
	defer o.m.Unlock()
	if !o.done {
		defer func() { o.done = true }()
		f()
	}
}

// OnceFunc mirrors sync.OnceFunc.
func OnceFunc(f func()) func() {
	var o Once
	return func() { o.Do(f) }
}

// OnceValue mirrors sync.OnceValue.
func OnceValue[T any](f func() T) func() T {
	var o Once
	var v T
	return func() T {
		o.Do(func() { v = f() })
		return v
	}
}

// OnceValues mirrors sync.OnceValues.
func OnceValues[T1, T2 any](f func() (T1, T2)) func() (T1, T2) {
	var o Once
	var a T1
	var b T2
	return func() (T1, T2) {
		o.Do(func() { a, b = f() })
		return a, b
	}
}

// Cond mirrors sync.Cond.
type Cond struct {
	L       Locker
	waiters []*bool
}

func NewCond(l Locker) *Cond { return &Cond{L: l} }

func (c *Cond) Wait() {
	if !vsched.Active() {
		if vsched.Dying() {
			runtime.Goexit()
		}
		panic("vsync: Cond.Wait outside an exploration is not supported")
	}
	woken := false
	c.waiters = append(c.waiters, &woken)
	c.L.Unlock()
	vsched.CondS("cond.wait", func() bool { return woken })
	vsched.Acquire(c)
	c.L.Lock()
}

func (c *Cond) Signal() {
	vsched.PointS("cond.signal")
	vsched.Release(c)
	if len(c.waiters) > 0 {
		*c.waiters[0] = true
		c.waiters = c.waiters[1:]
	}
}

func (c *Cond) Broadcast() {
	vsched.PointS("cond.broadcast")
	vsched.Release(c)
	for _, w := range c.waiters {
		*w = true
	}
	c.waiters = nil
}
