package vsched

import "time"

// ExploreOpts bound a stateless depth-first exploration.
type ExploreOpts struct {
	Bound int // maximum total cost (preemptions + deviations) of a schedule
	// FreeBound > 0: at most this many non-default choices among the cost-free ones (switches at
	// blocking points, ready select arms); 0 = unlimited.
	FreeBound int
	// DefaultOnly runs just the default schedule (no alternatives at all).
	DefaultOnly bool
	MaxExecs    int64     // 0 = unlimited
	Deadline    time.Time // zero = none
	Run         Opts      // per-execution options
	Shard       int       // explore only subtrees with index%Shards == Shard (when Shards > 1)
	Shards      int
	SplitAt     int                       // recursion depth at which subtrees are dealt to shards (default 2)
	Stop        func() bool               // polled between executions
	Exec        func(prefix []int) *Sched // optional: runs one execution (default Run(prefix, o.Run, body))
}

// ExploreStats is what Explore covered.
type ExploreStats struct {
	Execs        int64 // executions run by this shard
	Nodes        int64 // distinct decision-tree nodes visited (new decisions taken)
	Transitions  int64 // scheduler steps executed
	MaxDecisions int
	Capped       bool // MaxExecs / Deadline / Stop hit: the bound was not completed
	BoundDone    int
}

// Explore runs body under every schedule whose cost is within o.Bound (CHESS-style
// iterative context bounding, stateless DFS): explore(prefix) replays prefix, then
// takes choice 0 at every later decision; every alternative of every later decision
// whose accumulated cost stays within the bound is explored recursively.
// visit is called after each execution; returning false stops the exploration.
func Explore(o ExploreOpts, body func(), visit func(x *Sched) bool) ExploreStats {
	var st ExploreStats
	if o.SplitAt == 0 {
		o.SplitAt = 2
	}
	stop := false
	subtree := 0
	var rec func(prefix []int, depth int, mine bool)
	rec = func(prefix []int, depth int, mine bool) {
		if stop {
			return
		}
		if o.Shards > 1 && depth == o.SplitAt {
			mine = subtree%o.Shards == o.Shard
			subtree++
			if !mine {
				return
			}
		}
		if (o.MaxExecs > 0 && st.Execs >= o.MaxExecs) || (!o.Deadline.IsZero() && time.Now().After(o.Deadline)) || (o.Stop != nil && o.Stop()) {
			st.Capped = true
			stop = true
			return
		}
		count := o.Shards <= 1 || depth >= o.SplitAt || o.Shard == 0
		var x *Sched
		if o.Exec != nil && count {
			x = o.Exec(prefix)
		} else {
			// nodes above the split depth are re-executed by every shard only to find
			// their children; shard 0 alone reports them
			x = Run(prefix, o.Run, body)
		}
		if count {
			st.Execs++
			st.Transitions += int64(x.Steps)
			st.Nodes += int64(len(x.Decisions) - len(prefix))
			if len(x.Decisions) > st.MaxDecisions {
				st.MaxDecisions = len(x.Decisions)
			}
			if !visit(x) {
				stop = true
				return
			}
		}
		if o.DefaultOnly {
			return
		}
		cost, free := 0, 0
		ds := x.Decisions
		for i := range ds {
			d := &ds[i]
			if i >= len(prefix) {
				for alt := 1; alt < d.N; alt++ {
					if cost+int(d.Costs[alt]) > o.Bound {
						continue
					}
					if o.FreeBound > 0 && d.Costs[alt] == 0 && free+1 > o.FreeBound {
						continue
					}
					np := make([]int, i+1)
					for j := 0; j < i; j++ {
						np[j] = ds[j].Chosen
					}
					np[i] = alt
					rec(np, depth+1, mine)
					if stop {
						return
					}
				}
			}
			cost += int(d.Costs[d.Chosen])
			if d.Chosen != 0 && d.Costs[d.Chosen] == 0 {
				free++
			}
		}
	}
	rec(nil, 0, true)
	if !st.Capped {
		st.BoundDone = o.Bound
	}
	return st
}
