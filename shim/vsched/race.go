package vsched

// Happens-before data-race detection on the explored executions.
//
// The cooperative scheduler switches threads only at synchronisation operations, so a section of code
// that lost its lock (or a plain access that should have been atomic) runs atomically in every explored
// schedule and the damage is invisible to an outcome oracle. What remains visible is the *absence of a
// happens-before edge*: the rewriter wraps reads and writes of struct fields and maps in the instrumented
// packages (Rd/Wr/MR/MW) and every synchronisation operation of the shims transfers a vector clock
// (Acquire/Release). Two accesses to the same location, at least one a write, by different threads with
// neither ordered before the other are a data race in that execution — and in the real program, because
// the edges recorded are a superset of the ones Go's memory model guarantees (channels are treated as
// acquire+release on every operation, harness-level waits as acquire+release on one global object), so a
// reported race is never an artefact of a missing edge in the direction that matters: more edges can only
// hide races, never invent them.

import (
	"fmt"
	"reflect"
	"sort"
	"unsafe"
)

type vclock []uint32

func (a vclock) get(i int) uint32 {
	if i < len(a) {
		return a[i]
	}
	return 0
}

func joinInto(dst vclock, src vclock) vclock {
	if len(src) > len(dst) {
		n := make(vclock, len(src))
		copy(n, dst)
		dst = n
	}
	for i, v := range src {
		if v > dst[i] {
			dst[i] = v
		}
	}
	return dst
}

type readEp struct {
	t    int
	c    uint32
	site string
}

type shadow struct {
	wT    int
	wC    uint32
	wSite string
	reads []readEp
}

// Race is one detected pair of unordered conflicting accesses.
type Race struct {
	Kind  string // "write-write", "write-read", "read-write"
	First string // site of the earlier access (file:line in the instrumented package)
	Then  string // site of the later access
	A, B  string // thread names
}

func (r Race) String() string {
	return fmt.Sprintf("%s: %s by %s, then %s by %s, not ordered by any synchronisation", r.Kind, r.First, r.A, r.Then, r.B)
}

// Key is the schedule-independent identity of a race: the unordered pair of code sites.
func (r Race) Key() string {
	p := []string{r.First, r.Then}
	sort.Strings(p)
	return p[0] + "|" + p[1]
}

// global synchronisation object of harness-level waits (Point/Cond called from harness code)
const harnessKey = ^uintptr(0)

func (s *Sched) tick(t *T) {
	for len(t.vc) <= t.id {
		t.vc = append(t.vc, 0)
	}
	t.vc[t.id]++
}

func (s *Sched) hbInitThread(parent, child *T) {
	if !s.RaceOn {
		return
	}
	if s.inTimer != nil {
		// started from a timer's inline function (context.AfterFunc after a deadline)
		child.vc = append(vclock(nil), s.inTimer.vc...)
	} else if parent != nil {
		child.vc = append(vclock(nil), parent.vc...)
		s.tick(parent)
	}
	s.tick(child)
}

func (s *Sched) srcClock() (*T, vclock) {
	if s.inTimer != nil {
		return nil, s.inTimer.vc
	}
	t := s.cur
	if t == nil {
		return nil, nil
	}
	return t, t.vc
}

func (s *Sched) release(key uintptr) {
	t, vc := s.srcClock()
	s.syncs[key] = joinInto(s.syncs[key], vc)
	if t != nil {
		s.tick(t)
	}
}

func (s *Sched) acquire(key uintptr) {
	if s.inTimer != nil {
		s.inTimer.vc = joinInto(s.inTimer.vc, s.syncs[key])
		return
	}
	if t := s.cur; t != nil {
		t.vc = joinInto(t.vc, s.syncs[key])
	}
}

// acqRelT is acquire+release on key by the explicit thread t (channel operations are accounted by the
// scheduler at dispatch, where both parties of a rendezvous are known).
func (s *Sched) acqRelT(t *T, key uintptr) {
	if !s.RaceOn || key == 0 {
		return
	}
	t.vc = joinInto(t.vc, s.syncs[key])
	s.syncs[key] = joinInto(s.syncs[key], t.vc)
	s.tick(t)
}

func hbOn() *Sched {
	s := S
	if s == nil || !s.active || s.killing || !s.RaceOn {
		return nil
	}
	return s
}

func keyOf(obj any) uintptr {
	switch v := obj.(type) {
	case uintptr:
		return v
	case unsafe.Pointer:
		return uintptr(v)
	}
	rv := reflect.ValueOf(obj)
	switch rv.Kind() {
	case reflect.Pointer, reflect.Chan, reflect.Map, reflect.UnsafePointer, reflect.Func:
		return rv.Pointer()
	}
	panic(fmt.Sprintf("vsched: keyOf(%T)", obj))
}

// Release publishes the caller's history on the synchronisation object obj (a pointer, channel or key).
func Release(obj any) {
	if s := hbOn(); s != nil {
		s.mu.Lock()
		s.release(keyOf(obj))
		s.mu.Unlock()
	}
}

// Acquire makes everything released on obj so far happen before the caller's next steps.
func Acquire(obj any) {
	if s := hbOn(); s != nil {
		s.mu.Lock()
		s.acquire(keyOf(obj))
		s.mu.Unlock()
	}
}

// AcqRel is Acquire followed by Release (atomics, channel operations).
func AcqRel(obj any) {
	if s := hbOn(); s != nil {
		k := keyOf(obj)
		s.mu.Lock()
		s.acquire(k)
		s.release(k)
		s.mu.Unlock()
	}
}

// AcquireAll joins the history of every thread into the caller's (after Quiesce: everything else has
// stopped, the oracle thread may look at anything).
func (s *Sched) acquireAllLocked(t *T) {
	if !s.RaceOn {
		return
	}
	for _, o := range s.threads {
		if o != t {
			t.vc = joinInto(t.vc, o.vc)
		}
	}
}

// access runs without the scheduler lock: only the one running managed thread reaches it (a rendezvous
// partner finishing its channel operation executes no instrumented access before it parks again).
func (s *Sched) access(addr uintptr, write bool, site string) {
	t := s.cur
	if t == nil || s.inTimer != nil {
		return
	}
	sh := s.shadow[addr]
	if sh == nil {
		sh = newShadow()
		s.shadow[addr] = sh
	}
	if sh.wT >= 0 && sh.wT != t.id && sh.wC > t.vc.get(sh.wT) {
		kind := "write-read"
		if write {
			kind = "write-write"
		}
		s.addRace(Race{Kind: kind, First: sh.wSite, Then: site, A: s.threads[sh.wT].Name, B: t.Name})
	}
	me := t.vc.get(t.id)
	if write {
		for _, r := range sh.reads {
			if r.t != t.id && r.c > t.vc.get(r.t) {
				s.addRace(Race{Kind: "read-write", First: r.site, Then: site, A: s.threads[r.t].Name, B: t.Name})
			}
		}
		sh.reads = sh.reads[:0]
		sh.wT, sh.wC, sh.wSite = t.id, me, site
		return
	}
	for i := range sh.reads {
		if sh.reads[i].t == t.id {
			sh.reads[i].c, sh.reads[i].site = me, site
			return
		}
	}
	sh.reads = append(sh.reads, readEp{t.id, me, site})
}

// Shadow cells and the two maps are recycled between executions (one execution at a time per process).
var (
	slab       []shadow
	slabN      int
	spareShad  map[uintptr]*shadow
	spareSyncs map[uintptr]vclock
)

func newShadow() *shadow {
	if slabN == len(slab) {
		slab = make([]shadow, 4096)
		slabN = 0
	}
	sh := &slab[slabN]
	slabN++
	sh.wT, sh.wC, sh.wSite, sh.reads = -1, 0, "", sh.reads[:0]
	return sh
}

func (s *Sched) raceInit() {
	if !s.RaceOn {
		return
	}
	if spareShad == nil {
		spareShad, spareSyncs = map[uintptr]*shadow{}, map[uintptr]vclock{}
	}
	clear(spareShad)
	clear(spareSyncs)
	s.shadow, s.syncs = spareShad, spareSyncs
	slabN = 0
	if len(slab) > 4096 {
		slab = slab[:4096]
	}
}

func (s *Sched) addRace(r Race) {
	k := r.Key()
	for _, o := range s.Races {
		if o.Key() == k {
			return
		}
	}
	if len(s.Races) < 16 {
		s.Races = append(s.Races, r)
	}
}

// Every tracked address must be a heap address: stack memory is recycled between goroutines (and moves
// when a stack grows), so the same stack address can belong to unrelated variables of two threads within
// one execution. leak makes the pointer parameter of Rd/Wr escape as far as the compiler's escape analysis
// is concerned, so every variable whose field address can reach them is heap-allocated; heap addresses are
// unique within an execution because no collection runs inside one.
var (
	leakSink unsafe.Pointer
	leakOn   bool // never set
)

func leak(p unsafe.Pointer) {
	if leakOn {
		leakSink = p
	}
}

// Rd records a read of *p by the current thread and returns p (instrumented field reads: *vsched.Rd(&x.f, site)).
func Rd[T any](p *T, site string) *T {
	leak(unsafe.Pointer(p))
	if s := hbOn(); s != nil {
		s.access(uintptr(unsafe.Pointer(p)), false, site)
	}
	return p
}

// Wr records a write of *p (instrumented field writes: *vsched.Wr(&x.f, site) = v).
func Wr[T any](p *T, site string) *T {
	leak(unsafe.Pointer(p))
	if s := hbOn(); s != nil {
		s.access(uintptr(unsafe.Pointer(p)), true, site)
	}
	return p
}

func mapKey[M ~map[K]V, K comparable, V any](m M) uintptr {
	return *(*uintptr)(unsafe.Pointer(&m))
}

// MR records a read of the map m (lookup, len, range) and returns m.
func MR[M ~map[K]V, K comparable, V any](m M, site string) M {
	if s := hbOn(); s != nil && m != nil {
		s.access(mapKey(m), false, site)
	}
	return m
}

// MW records a write of the map m (assignment to an element, delete, clear) and returns m.
func MW[M ~map[K]V, K comparable, V any](m M, site string) M {
	if s := hbOn(); s != nil && m != nil {
		s.access(mapKey(m), true, site)
	}
	return m
}
