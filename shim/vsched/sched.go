// Package vsched is the cooperative scheduler behind E-SCHED: instrumented
// copies of td packages (see /verif/rw) call into it before every visible
// concurrency operation, and it lets exactly one managed goroutine run at a
// time, asking an explorer which enabled thread / select arm / environment
// answer / timer goes next. Time is virtual.
//
// Outside an exploration (package init, code running after an execution was
// ended) every operation degrades to the real primitive or to a no-op that
// lets a dying goroutine unwind.
package vsched

import (
	"cmp"
	"fmt"
	"os"
	"reflect"
	"runtime"
	"slices"
	"strings"
	"sync"
	"time"
)

type opKind int

const (
	opNone opKind = iota
	opPoint
	opSend
	opRecv
	opSelect
	opCond
	opQuiesce
)

type selCase struct {
	send bool
	ch   reflect.Value
}

type pending struct {
	kind  opKind
	ch    reflect.Value
	cases []selCase
	def   bool
	ready func() bool
	what  string
}

// T is a managed thread.
type T struct {
	id      int
	Name    string
	wake    chan struct{}
	done    bool
	started bool
	pend    *pending
	sel     int
	partner bool
	gid     uint64
	daemon  bool
	dying   bool // woken (or running) to unwind after the execution ended
	vc      vclock
}

// Decision is one recorded choice of an execution.
type Decision struct {
	N      int
	Chosen int
	Costs  []int8
	Kind   byte // 't' thread, 's' select arm, 'd' data/environment
}

// TimerFire records one firing of a virtual timer.
type TimerFire struct {
	Step int
	At   time.Duration // virtual time since Epoch
}

// TimerInfo describes one virtual timer for oracles that need to relate events to deadlines.
type TimerInfo struct {
	Seq         int
	Creator     string // name of the managed thread that created the timer
	CreatedStep int
	CreatedAt   time.Duration // virtual time of creation
	Inline      bool          // context deadline
	Deadline    time.Duration
	FiredStep   int // -1 while it has not fired (last firing for tickers)
}

// Epoch is the start of virtual time.
var Epoch = time.Unix(1700000000, 0)

// Sched is one execution.
type Sched struct {
	mu       sync.Mutex
	threads  []*T
	cur      *T
	active   bool
	killing  bool
	closed   map[uintptr]bool
	keep     []reflect.Value // closed channels are pinned so that their addresses are not reused within the execution
	finished chan struct{}

	// results
	Deadlock  bool     // no enabled thread, no armed timer, main not finished
	StepLimit bool     // horizon hit
	Blocked   []string // "name: op" of threads that were not finished at the end
	Panics    []string
	Steps     int
	MaxSteps  int
	Trace     []string
	KeepTrace bool
	// ChanLog lists the channel operations of the execution when KeepChanLog is set.
	KeepChanLog bool
	ChanLog     []ChanOp
	chanIDs     map[uintptr]int
	// TimerFires lists the virtual timers that fired: scheduler step and virtual time.
	TimerFires []TimerFire
	// TimerLog lists every virtual timer created in the execution, in creation order.
	TimerLog []*TimerInfo

	prefix    []int
	Decisions []Decision

	// happens-before race detection (race.go)
	RaceOn  bool
	Races   []Race
	syncs   map[uintptr]vclock
	shadow  map[uintptr]*shadow
	inTimer *Timer

	live     sync.WaitGroup
	now      time.Time
	timers   []*Timer
	timerSeq int
	debug    bool
}

// S is the execution in progress (nil outside).
var S *Sched

var debugIdentity = os.Getenv("VSCHED_DEBUG") != ""

// Active reports whether the caller runs inside a live exploration.
func Active() bool { s := S; return s != nil && s.active && !s.killing }

// Dying reports whether the execution has ended and leftover goroutines are
// being unwound: blocking operations must runtime.Goexit.
func Dying() bool { s := S; return s != nil && s.active && s.killing }

func cur() *T {
	s := S
	if s == nil || !s.active {
		return nil
	}
	if debugIdentity && !s.killing {
		if g := goid(); s.cur != nil && s.cur.gid != 0 && s.cur.gid != g {
			fmt.Fprintf(os.Stderr, "vsched: goroutine %d called into the scheduler but thread %s (goroutine %d) is current\n%s\n", g, s.cur.Name, s.cur.gid, stack())
			os.Exit(2)
		}
	}
	return s.cur
}

func stack() string {
	b := make([]byte, 1<<14)
	return string(b[:runtime.Stack(b, false)])
}

func goid() uint64 {
	var b [64]byte
	n := runtime.Stack(b[:], false)
	// "goroutine 123 ["
	var id uint64
	for _, c := range b[10:n] {
		if c < '0' || c > '9' {
			break
		}
		id = id*10 + uint64(c-'0')
	}
	return id
}

// Opts configure one execution.
type Opts struct {
	MaxSteps    int
	KeepTrace   bool
	KeepChanLog bool
	Race        bool // happens-before data-race detection on instrumented accesses
}

// WatchdogTimeout is the wall-clock time after which an execution that does
// not come back is declared an infrastructure error (exit 2): a managed
// thread is blocked inside code the scheduler does not control.
var WatchdogTimeout = 60 * time.Second

// Run executes body as thread "main" under the schedule prefix (then default
// choices) and returns the finished execution. The execution ends when main
// returns, on deadlock, or at the step horizon.
func Run(prefix []int, o Opts, body func()) *Sched {
	if o.MaxSteps == 0 {
		o.MaxSteps = 20000
	}
	s := &Sched{closed: map[uintptr]bool{}, finished: make(chan struct{}), prefix: prefix, MaxSteps: o.MaxSteps, now: Epoch, KeepTrace: o.KeepTrace, KeepChanLog: o.KeepChanLog, chanIDs: map[uintptr]int{},
		RaceOn: o.Race}
	s.raceInit()
	S = s
	s.active = true
	t := s.newThread("main")
	s.hbInitThread(nil, t)
	s.cur = t
	t.started = true
	s.live.Add(1)
	go func() {
		defer s.live.Done()
		defer s.threadExit(t)
		if debugIdentity {
			t.gid = goid()
		}
		<-t.wake
		body()
	}()
	t.wake <- struct{}{}
	wd := time.NewTimer(WatchdogTimeout)
	select {
	case <-s.finished:
		wd.Stop()
	case <-wd.C:
		s.mu.Lock()
		fmt.Fprintf(os.Stderr, "vsched: WATCHDOG: execution did not finish within %v; current thread %q is blocked outside the scheduler.\nschedule so far: %v\ntrace tail: %v\n", WatchdogTimeout, s.cur.Name, chosen(s.Decisions), tail(s.Trace, 40))
		buf := make([]byte, 1<<20)
		fmt.Fprintf(os.Stderr, "%s\n", buf[:runtime.Stack(buf, true)])
		os.Exit(2)
	}
	// every goroutine of this execution must be gone before the next one starts:
	// a straggler would call into the scheduler of the next execution.
	gone := make(chan struct{})
	go func() { s.live.Wait(); close(gone) }()
	wd.Reset(WatchdogTimeout)
	select {
	case <-gone:
		wd.Stop()
	case <-wd.C:
		fmt.Fprintf(os.Stderr, "vsched: WATCHDOG: goroutines of a finished execution did not unwind within %v (blocked in un-instrumented code while dying)\nschedule: %v\n", WatchdogTimeout, chosen(s.Decisions))
		buf := make([]byte, 1<<20)
		fmt.Fprintf(os.Stderr, "%s\n", buf[:runtime.Stack(buf, true)])
		os.Exit(2)
	}
	s.mu.Lock()
	s.active = false
	s.mu.Unlock()
	return s
}

func tail(s []string, n int) []string {
	if len(s) > n {
		return s[len(s)-n:]
	}
	return s
}

func (s *Sched) newThread(name string) *T {
	t := &T{id: len(s.threads), Name: name, wake: make(chan struct{}, 1)}
	s.threads = append(s.threads, t)
	return t
}

// Go starts fn as a new managed thread (instrumented `go` statements).
func Go(fn func()) { GoNamed("", fn) }

// GoDaemon starts a managed thread that does not count for the deadlock
// verdict's Blocked list filter (harness background servers).
func GoDaemon(name string, fn func()) { goNamed(name, fn, true) }

// GoNamed starts fn as a managed thread with a name used in traces.
func GoNamed(name string, fn func()) { goNamed(name, fn, false) }

func goNamed(name string, fn func(), daemon bool) {
	s := S
	c := cur()
	if c == nil {
		go fn()
		return
	}
	if s.killing {
		return
	}
	s.mu.Lock()
	if name == "" {
		name = fmt.Sprintf("g%d", len(s.threads))
	}
	t := s.newThread(name)
	t.daemon = daemon
	s.hbInitThread(c, t)
	s.mu.Unlock()
	s.live.Add(1)
	go func() {
		defer s.live.Done()
		defer s.threadExit(t)
		if debugIdentity {
			t.gid = goid()
		}
		<-t.wake
		if s.killing {
			return
		}
		fn()
	}()
	PointS("go")
}

func (s *Sched) threadExit(t *T) {
	if r := recover(); r != nil {
		s.mu.Lock()
		msg := fmt.Sprintf("PANIC in %s: %v", t.Name, r)
		if !s.killing {
			msg += "\n" + stack()
		}
		s.Panics = append(s.Panics, msg)
		s.mu.Unlock()
	}
	s.mu.Lock()
	t.done = true
	t.pend = nil
	if s.killing {
		s.wakeNextDyingLocked()
		s.mu.Unlock()
		return
	}
	if t.id == 0 {
		// main returned: the execution is over
		s.collectBlockedLocked()
		s.killAllLocked(t)
		s.mu.Unlock()
		return
	}
	s.mu.Unlock()
	s.switchFrom(t, true)
}

func chanPtr(v reflect.Value) uintptr {
	if !v.IsValid() || v.IsNil() {
		return 0
	}
	return v.Pointer()
}

func (s *Sched) isClosed(v reflect.Value) bool {
	p := chanPtr(v)
	if p == 0 {
		return false
	}
	if s.closed[p] {
		return true
	}
	// channels closed by un-instrumented code (e.g. a std context): poll.
	if v.Len() == 0 && v.Type().ChanDir()&reflect.RecvDir != 0 {
		if v.Cap() == 0 {
			// an unbuffered channel with a pending *managed* sender must not be polled
			if p, _ := s.partnerFor(nil, v, true); p != nil {
				return false
			}
		}
		x, ok := v.TryRecv()
		if !ok && x.IsValid() {
			s.closed[p] = true
			s.keep = append(s.keep, v) // pin: the address must not be reused by a new channel
			return true
		}
		if ok {
			panic("vsched: a goroutine outside the scheduler sent on a tracked channel")
		}
	}
	return false
}

func (s *Sched) partnerFor(self *T, ch reflect.Value, wantSend bool) (*T, int) {
	p := chanPtr(ch)
	for _, o := range s.threads {
		if o == self || o.done || o.pend == nil {
			continue
		}
		switch o.pend.kind {
		case opSend:
			if wantSend && chanPtr(o.pend.ch) == p {
				return o, -1
			}
		case opRecv:
			if !wantSend && chanPtr(o.pend.ch) == p {
				return o, -1
			}
		case opSelect:
			for i, c := range o.pend.cases {
				if c.send == wantSend && chanPtr(c.ch) == p {
					return o, i
				}
			}
		}
	}
	return nil, 0
}

func (s *Sched) chanReady(self *T, ch reflect.Value, send bool) bool {
	if chanPtr(ch) == 0 {
		return false
	}
	if send {
		if s.closed[chanPtr(ch)] {
			return true // will panic, as the real program would
		}
		if ch.Cap() > 0 {
			return ch.Len() < ch.Cap()
		}
		p, _ := s.partnerFor(self, ch, false)
		return p != nil
	}
	if ch.Cap() > 0 && ch.Len() > 0 {
		return true
	}
	if ch.Cap() == 0 {
		if p, _ := s.partnerFor(self, ch, true); p != nil {
			return true
		}
	}
	return s.isClosed(ch)
}

func (s *Sched) readyCases(t *T) []int {
	var r []int
	for i, c := range t.pend.cases {
		if s.chanReady(t, c.ch, c.send) {
			r = append(r, i)
		}
	}
	return r
}

func (s *Sched) enabled(t *T) bool {
	if t.done {
		return false
	}
	if !t.started || t.pend == nil {
		return true
	}
	switch t.pend.kind {
	case opPoint:
		return true
	case opSend:
		return s.chanReady(t, t.pend.ch, true)
	case opRecv:
		return s.chanReady(t, t.pend.ch, false)
	case opSelect:
		return t.pend.def || len(s.readyCases(t)) > 0
	case opCond:
		return t.pend.ready()
	case opQuiesce:
		// enabled once nothing else can run (other quiescing threads do not count)
		for _, o := range s.threads {
			if o == t || o.done || (o.pend != nil && o.pend.kind == opQuiesce) {
				continue
			}
			if s.enabled(o) {
				return false
			}
		}
		return true
	}
	return false
}

func (s *Sched) choose(n int, costs []int8, kind byte) int {
	idx := len(s.Decisions)
	c := 0
	if idx < len(s.prefix) {
		c = s.prefix[idx]
		if c >= n || c < 0 {
			fmt.Fprintf(os.Stderr, "vsched: REPLAY DIVERGENCE at decision %d: recorded choice %d but only %d options (kind %c); the scenario is not deterministic\nschedule: %v\ntrace tail: %v\n", idx, c, n, kind, s.prefix, tail(s.Trace, 30))
			os.Exit(2)
		}
	}
	s.Decisions = append(s.Decisions, Decision{N: n, Chosen: c, Costs: costs, Kind: kind})
	return c
}

// Choose asks the explorer for an environment answer in [0,n); answer 0 is
// the default, every other answer costs one deviation.
func Choose(n int) int { return chooseCost(n, 1) }

// ChooseFree is Choose where all answers are free (genuinely arbitrary
// outcomes such as Go's random select).
func ChooseFree(n int) int { return chooseCost(n, 0) }

func chooseCost(n int, cost int8) int {
	s := S
	if cur() == nil || n <= 1 || s.killing {
		return 0
	}
	s.mu.Lock()
	defer s.mu.Unlock()
	costs := make([]int8, n)
	for i := 1; i < n; i++ {
		costs[i] = cost
	}
	return s.choose(n, costs, 'd')
}

func (s *Sched) collectBlockedLocked() {
	s.Blocked = s.Blocked[:0]
	for _, o := range s.threads {
		if !o.done && !o.daemon {
			w := "running"
			if o.pend != nil {
				w = o.pend.what
			}
			s.Blocked = append(s.Blocked, o.Name+": "+w)
		}
	}
}

func (s *Sched) switchFrom(t *T, exiting bool) {
	for {
		s.mu.Lock()
		s.Steps++
		if s.Steps > s.MaxSteps {
			s.StepLimit = true
			s.collectBlockedLocked()
			s.killAllLocked(t)
			s.mu.Unlock()
			if !exiting {
				runtime.Goexit()
			}
			return
		}
		var opts []*T
		selfEnabled := !exiting && s.enabled(t)
		if selfEnabled {
			opts = append(opts, t)
		}
		for _, o := range s.threads {
			if o != t && s.enabled(o) {
				opts = append(opts, o)
			}
		}
		tm := s.earliestTimers()
		n := len(opts) + len(tm)
		if n == 0 {
			s.Deadlock = true
			s.collectBlockedLocked()
			s.killAllLocked(t)
			s.mu.Unlock()
			if !exiting {
				runtime.Goexit()
			}
			return
		}
		c := 0
		if n > 1 {
			costs := make([]int8, n)
			for i := range costs {
				if i == 0 {
					continue
				}
				if selfEnabled {
					costs[i] = 1 // switching away from a runnable thread = preemption
				} else if i >= len(opts) && len(opts) > 0 {
					costs[i] = 1 // letting time pass while some thread can run
				}
			}
			c = s.choose(n, costs, 't')
		}
		if c >= len(opts) {
			s.fireTimerLocked(tm[c-len(opts)])
			s.mu.Unlock()
			continue
		}
		next := opts[c]
		s.dispatchLocked(next)
		s.mu.Unlock()
		if next != t {
			next.wake <- struct{}{}
			if !exiting {
				<-t.wake
				if s.killing {
					runtime.Goexit()
				}
			}
		}
		return
	}
}

func (s *Sched) dispatchLocked(next *T) {
	s.cur = next
	next.started = true
	p := next.pend
	if p == nil {
		return
	}
	var relCh reflect.Value
	var relSend bool
	needPartner := false
	unbuf := func(ch reflect.Value) bool { return ch.Cap() == 0 && !s.closed[chanPtr(ch)] }
	switch p.kind {
	case opSelect:
		rc := s.readyCases(next)
		if len(rc) == 0 {
			next.sel = -1
		} else {
			k := 0
			if len(rc) > 1 {
				k = s.choose(len(rc), make([]int8, len(rc)), 's')
			}
			next.sel = rc[k]
			c := p.cases[next.sel]
			if unbuf(c.ch) {
				if o, _ := s.partnerFor(next, c.ch, !c.send); o != nil {
					needPartner, relCh, relSend = true, c.ch, !c.send
				}
			}
		}
	case opSend:
		if unbuf(p.ch) {
			needPartner, relCh, relSend = true, p.ch, false
		}
	case opRecv:
		if unbuf(p.ch) {
			if o, _ := s.partnerFor(next, p.ch, true); o != nil {
				needPartner, relCh, relSend = true, p.ch, true
			}
		}
	}
	if s.KeepTrace {
		w := p.what
		if p.kind == opSelect {
			w = fmt.Sprintf("%s->%d", w, next.sel)
		}
		s.Trace = append(s.Trace, next.Name+":"+w)
	}
	if s.KeepChanLog {
		switch p.kind {
		case opSend:
			s.logChan(next, 's', p.ch)
		case opRecv:
			s.logChan(next, 'r', p.ch)
		case opSelect:
			if next.sel >= 0 {
				c := p.cases[next.sel]
				k := byte('r')
				if c.send {
					k = 's'
				}
				s.logChan(next, k, c.ch)
			}
		}
	}
	if s.RaceOn {
		switch p.kind {
		case opSend, opRecv:
			s.acqRelT(next, chanPtr(p.ch))
		case opSelect:
			if next.sel >= 0 {
				s.acqRelT(next, chanPtr(p.cases[next.sel].ch))
			}
		}
	}
	next.pend = nil
	if needPartner {
		o, idx := s.partnerFor(next, relCh, relSend)
		if o == nil {
			panic("vsched: no partner for rendezvous")
		}
		if s.RaceOn {
			// unbuffered rendezvous: edges in both directions
			s.acqRelT(o, chanPtr(relCh))
			s.acqRelT(next, chanPtr(relCh))
		}
		if o.pend.kind == opSelect {
			o.sel = idx
		}
		if s.KeepTrace {
			s.Trace = append(s.Trace, o.Name+":rendezvous")
		}
		if s.KeepChanLog {
			k := byte('r')
			if relSend {
				k = 's'
			}
			s.logChan(o, k, relCh)
		}
		o.pend = nil
		o.partner = true
		o.wake <- struct{}{}
	}
}

// ChanOp is one channel operation of the execution (recorded when Opts.KeepChanLog is set): which thread
// sent to / received from which channel at which step. Channels are numbered in order of first appearance.
type ChanOp struct {
	Step   int
	Thread string
	Kind   byte // 's' send, 'r' receive
	Chan   int
}

func (s *Sched) logChan(t *T, kind byte, ch reflect.Value) {
	p := chanPtr(ch)
	if p == 0 {
		return
	}
	id, ok := s.chanIDs[p]
	if !ok {
		id = len(s.chanIDs) + 1
		s.chanIDs[p] = id
		s.keep = append(s.keep, ch) // pin: the address identifies the channel for the rest of the execution
	}
	s.ChanLog = append(s.ChanLog, ChanOp{Step: s.Steps, Thread: t.Name, Kind: kind, Chan: id})
}

// killAllLocked ends the execution. Leftover threads are unwound ONE AT A TIME (each dying thread wakes
// the next when its goroutine is finished): their deferred functions touch shared state of the code under
// test and of the shims, which must not happen concurrently. cur is the thread that triggered the end; if it
// still has to unwind itself (it is not done), it is the first to do so and wakes the next one on exit.
func (s *Sched) killAllLocked(cur *T) {
	if s.killing {
		return
	}
	s.killing = true
	close(s.finished)
	if cur == nil || cur.done {
		s.wakeNextDyingLocked()
	} else {
		cur.dying = true
	}
}

func (s *Sched) wakeNextDyingLocked() {
	for _, o := range s.threads {
		if !o.done && !o.dying {
			o.dying = true
			select {
			case o.wake <- struct{}{}:
			default:
			}
			return
		}
	}
}

func (s *Sched) yield(t *T, p *pending) {
	s.mu.Lock()
	t.pend = p
	s.mu.Unlock()
	s.switchFrom(t, false)
}

func (s *Sched) afterOp(t *T) {
	s.mu.Lock()
	if !t.partner {
		s.mu.Unlock()
		return
	}
	t.partner = false
	s.mu.Unlock()
	<-t.wake
	if s.killing {
		runtime.Goexit()
	}
}

// Point is a scheduling point before a non-blocking visible operation of harness code. For the
// happens-before relation every harness-level Point/Cond is an acquire+release on one global object
// (harness objects synchronise for real in a free-running test); the shims use PointS/CondS and account
// for their own objects.
func Point(what string) {
	t := cur()
	if t == nil || S.killing {
		return
	}
	S.yield(t, &pending{kind: opPoint, what: what})
	AcqRel(harnessKey)
}

// PointS is Point without any happens-before edge.
func PointS(what string) {
	t := cur()
	if t == nil || S.killing {
		return
	}
	S.yield(t, &pending{kind: opPoint, what: what})
}

// Cond blocks the thread until ready() holds (evaluated by the scheduler
// while no managed thread runs). When the execution is being torn down it
// terminates the calling goroutine.
func Cond(what string, ready func() bool) {
	t := cur()
	if t == nil {
		panic("vsched.Cond outside an exploration")
	}
	if S.killing {
		runtime.Goexit()
	}
	S.yield(t, &pending{kind: opCond, ready: ready, what: what})
	AcqRel(harnessKey)
}

// CondS is Cond without any happens-before edge (shims).
func CondS(what string, ready func() bool) {
	t := cur()
	if t == nil {
		panic("vsched.Cond outside an exploration")
	}
	if S.killing {
		runtime.Goexit()
	}
	S.yield(t, &pending{kind: opCond, ready: ready, what: what})
}

// Quiesce blocks the calling thread until no other managed thread can run:
// everything that was going to happen without further input has happened
// (armed timers do not fire while a quiescing thread is enabled unless chosen
// as a deviation).
func Quiesce() {
	t := cur()
	if t == nil {
		return
	}
	if S.killing {
		runtime.Goexit()
	}
	S.yield(t, &pending{kind: opQuiesce, what: "quiesce"})
	if s := hbOn(); s != nil {
		s.mu.Lock()
		s.acquireAllLocked(t)
		s.mu.Unlock()
	}
}

// Send is an instrumented channel send; op performs the real send.
func Send(ch any, op func()) {
	t := cur()
	if t == nil {
		op()
		return
	}
	if S.killing {
		runtime.Goexit()
	}
	S.yield(t, &pending{kind: opSend, ch: reflect.ValueOf(ch), what: "send"})
	op()
	S.afterOp(t)
}

// Recv is an instrumented `<-c`.
func Recv[E any](c <-chan E) E {
	t := cur()
	if t == nil {
		return <-c
	}
	if S.killing {
		runtime.Goexit()
	}
	S.yield(t, &pending{kind: opRecv, ch: reflect.ValueOf(c), what: "recv"})
	v := <-c
	S.afterOp(t)
	return v
}

// Recv2 is an instrumented `v, ok := <-c`.
func Recv2[E any](c <-chan E) (E, bool) {
	t := cur()
	if t == nil {
		v, ok := <-c
		return v, ok
	}
	if S.killing {
		runtime.Goexit()
	}
	S.yield(t, &pending{kind: opRecv, ch: reflect.ValueOf(c), what: "recv"})
	v, ok := <-c
	S.afterOp(t)
	return v, ok
}

// CloseCh is an instrumented close(c).
func CloseCh[E any](c chan E) {
	t := cur()
	if t == nil {
		close(c)
		return
	}
	if S.killing {
		// a dying goroutine's deferred close: perform it if it cannot panic
		defer func() { _ = recover() }()
		close(c)
		return
	}
	S.yield(t, &pending{kind: opPoint, what: "close"})
	S.mu.Lock()
	S.closed[chanPtr(reflect.ValueOf(c))] = true
	S.keep = append(S.keep, reflect.ValueOf(c))
	if S.RaceOn {
		S.release(chanPtr(reflect.ValueOf(c)))
	}
	S.mu.Unlock()
	close(c)
}

// MarkClosed lets shims that close a channel themselves tell the scheduler.
func MarkClosed(c any) {
	s := S
	if s == nil || !s.active {
		return
	}
	s.mu.Lock()
	s.closed[chanPtr(reflect.ValueOf(c))] = true
	s.keep = append(s.keep, reflect.ValueOf(c))
	if s.RaceOn && !s.killing {
		s.release(chanPtr(reflect.ValueOf(c)))
	}
	s.mu.Unlock()
}

// Case is one communication clause of a rewritten select.
type Case struct {
	send bool
	ch   any
}

// R is a receive clause.
func R(ch any) Case { return Case{false, ch} }

// Sd is a send clause.
func Sd(ch any) Case { return Case{true, ch} }

// Select blocks until one clause is ready and returns its index (-1 for
// default) plus the thread token whose Done must be called after the real
// operation of the chosen arm.
func Select(def bool, cases ...Case) (int, *T) {
	t := cur()
	if t == nil {
		return selectPassThrough(def, cases)
	}
	if S.killing {
		runtime.Goexit()
	}
	p := &pending{kind: opSelect, def: def, what: "select"}
	for _, c := range cases {
		p.cases = append(p.cases, selCase{send: c.send, ch: reflect.ValueOf(c.ch)})
	}
	S.yield(t, p)
	return t.sel, t
}

// selectPassThrough supports rewritten selects that run outside an
// exploration (set-up code): it waits, by polling, until a clause is ready.
// Only sound while no other goroutine competes for the same channels, which
// is the case for single-threaded set-up code; anything else is a harness bug.
func selectPassThrough(def bool, cases []Case) (int, *T) {
	for spins := 0; ; spins++ {
		for i, c := range cases {
			v := reflect.ValueOf(c.ch)
			if !v.IsValid() || v.IsNil() {
				continue
			}
			if c.send {
				if v.Cap() > 0 && v.Len() < v.Cap() {
					return i, nil
				}
			} else if v.Len() > 0 {
				return i, nil
			}
		}
		if def {
			return -1, nil
		}
		if spins > 2000 {
			panic("vsched: rewritten select executed outside an exploration and no clause became ready (unbuffered/closed channels are not supported there)")
		}
		time.Sleep(time.Millisecond)
	}
}

// Done is called after the real op of a select arm.
func (t *T) Done() {
	if t == nil {
		return
	}
	S.afterOp(t)
}

// MapKeys returns the keys of m in ascending order: instrumented `range` over
// a map iterates in this canonical order so that executions are deterministic.
func MapKeys[M ~map[K]V, K cmp.Ordered, V any](m M) []K {
	keys := make([]K, 0, len(m))
	for k := range m {
		keys = append(keys, k)
	}
	slices.Sort(keys)
	if n := len(keys); n > 1 && Active() {
		// Go's iteration order is arbitrary: starting at another key is an
		// environment deviation.
		if r := Choose(n); r > 0 {
			keys = append(keys[r:], keys[:r]...)
		}
	}
	return keys
}

// ---- virtual time ----

// Timer is a virtual timer.
type Timer struct {
	C      chan time.Time
	when   time.Time
	armed  bool
	seq    int
	period time.Duration
	fn     func()
	inline func()
	info   *TimerInfo
	s      *Sched
	real   *time.Timer
	vc     vclock
}

// Now is the virtual clock reading.
func Now() time.Time {
	s := S
	if s == nil || !s.active {
		return time.Now()
	}
	s.mu.Lock()
	defer s.mu.Unlock()
	return s.now
}

// Step is the number of scheduler steps of the current execution so far: a
// logical timestamp for harness event logs.
func Step() int {
	s := S
	if s == nil || !s.active {
		return 0
	}
	s.mu.Lock()
	defer s.mu.Unlock()
	return s.Steps
}

func (s *Sched) curNameLocked() string {
	if s.cur == nil {
		return ""
	}
	return s.cur.Name
}

// CurName is the name of the managed thread that is running ("" outside).
func CurName() string {
	s := S
	if s == nil || !s.active || s.cur == nil {
		return ""
	}
	return s.cur.Name
}

// Elapsed is virtual time since the start of the execution.
func Elapsed() time.Duration { return Now().Sub(Epoch) }

func newTimer(d time.Duration, period time.Duration, fn func()) *Timer {
	s := S
	if s == nil || !s.active {
		// pass-through
		t := &Timer{C: make(chan time.Time, 1)}
		if fn != nil {
			t.real = time.AfterFunc(d, fn)
		} else {
			t.real = time.AfterFunc(d, func() {
				select {
				case t.C <- time.Now():
				default:
				}
			})
		}
		return t
	}
	s.mu.Lock()
	defer s.mu.Unlock()
	s.timerSeq++
	t := &Timer{C: make(chan time.Time, 1), when: s.now.Add(d), armed: true, seq: s.timerSeq, period: period, fn: fn, s: s}
	t.info = &TimerInfo{Seq: t.seq, Creator: s.curNameLocked(), CreatedStep: s.Steps, CreatedAt: s.now.Sub(Epoch), Deadline: t.when.Sub(Epoch), FiredStep: -1}
	s.TimerLog = append(s.TimerLog, t.info)
	s.timers = append(s.timers, t)
	if s.RaceOn {
		// arming a timer happens before its firing
		_, vc := s.srcClock()
		t.vc = append(vclock(nil), vc...)
		if s.inTimer == nil && s.cur != nil {
			s.tick(s.cur)
		}
	}
	return t
}

// NewTimer arms a virtual timer.
func NewTimer(d time.Duration) *Timer { return newTimer(d, 0, nil) }

// NewTicker arms a periodic virtual timer.
func NewTicker(d time.Duration) *Timer { return newTimer(d, d, nil) }

// AfterFunc runs fn in a new managed thread when the timer fires.
func AfterFunc(d time.Duration, fn func()) *Timer { return newTimer(d, 0, fn) }

// AfterFuncInline arms a timer whose fn runs inside the scheduler when it fires
// (no managed thread): fn must not block or hit scheduling points. Used for
// context deadlines.
func AfterFuncInline(d time.Duration, fn func()) *Timer {
	if s := S; s == nil || !s.active {
		return &Timer{real: time.AfterFunc(d, fn)}
	}
	t := newTimer(d, 0, nil)
	t.inline = fn
	t.info.Inline = true
	return t
}

// StopNoPoint disarms the timer without a scheduling point.
func (t *Timer) StopNoPoint() {
	if t.real != nil {
		t.real.Stop()
		return
	}
	t.s.mu.Lock()
	t.armed = false
	t.s.mu.Unlock()
}

// Stop disarms the timer.
func (t *Timer) Stop() bool {
	if t.real != nil {
		return t.real.Stop()
	}
	PointS("timer.stop")
	t.s.mu.Lock()
	defer t.s.mu.Unlock()
	was := t.armed
	t.armed = false
	return was
}

// Reset re-arms the timer.
func (t *Timer) Reset(d time.Duration) bool {
	if t.real != nil {
		return t.real.Reset(d)
	}
	PointS("timer.reset")
	t.s.mu.Lock()
	defer t.s.mu.Unlock()
	was := t.armed
	t.armed = true
	if t.s.RaceOn && t.s.cur != nil && t.s.inTimer == nil {
		t.vc = joinInto(t.vc, t.s.cur.vc)
		t.s.tick(t.s.cur)
	}
	t.when = t.s.now.Add(d)
	if t.period > 0 {
		t.period = d
	}
	return was
}

func (s *Sched) earliestTimers() []*Timer {
	var best []*Timer
	for _, t := range s.timers {
		if !t.armed {
			continue
		}
		if len(best) == 0 || t.when.Before(best[0].when) {
			best = append(best[:0], t)
		} else if t.when.Equal(best[0].when) {
			best = append(best, t)
		}
	}
	// drop dead timers now and then
	if len(s.timers) > 64 {
		live := s.timers[:0]
		for _, t := range s.timers {
			if t.armed {
				live = append(live, t)
			}
		}
		s.timers = live
	}
	return best
}

func (s *Sched) fireTimerLocked(t *Timer) {
	if t.when.After(s.now) {
		s.now = t.when
	}
	if t.period > 0 {
		t.when = s.now.Add(t.period)
	} else {
		t.armed = false
	}
	s.TimerFires = append(s.TimerFires, TimerFire{s.Steps, s.now.Sub(Epoch)})
	if t.info != nil {
		t.info.FiredStep = s.Steps
	}
	if s.KeepTrace {
		s.Trace = append(s.Trace, fmt.Sprintf("timer#%d@%v", t.seq, s.now.Sub(Epoch)))
	}
	if t.inline != nil {
		// runs with the scheduler lock released-equivalent state: inline
		// functions only touch context state and MarkClosed (which locks).
		s.inTimer = t
		s.mu.Unlock()
		t.inline()
		s.mu.Lock()
		s.inTimer = nil
		return
	}
	if t.fn != nil {
		nt := s.newThread(fmt.Sprintf("afterfunc%d", t.seq))
		if s.RaceOn {
			nt.vc = append(vclock(nil), t.vc...)
			s.tick(nt)
		}
		fn := t.fn
		s.live.Add(1)
		go func() {
			defer s.live.Done()
			defer s.threadExit(nt)
			if debugIdentity {
				nt.gid = goid()
			}
			<-nt.wake
			if s.killing {
				return
			}
			fn()
		}()
		return
	}
	if s.RaceOn {
		k := chanPtr(reflect.ValueOf(t.C))
		s.syncs[k] = joinInto(s.syncs[k], t.vc)
	}
	select {
	case t.C <- s.now:
	default:
	}
}

// Sleep blocks the thread for d of virtual time.
func Sleep(d time.Duration) {
	if !Active() {
		if Dying() {
			runtime.Goexit()
		}
		time.Sleep(d)
		return
	}
	t := NewTimer(d)
	Recv[time.Time](t.C)
}

func chosen(ds []Decision) []int {
	r := make([]int, len(ds))
	for i, d := range ds {
		r[i] = d.Chosen
	}
	return r
}

// Schedule returns the list of choices of the execution.
func (s *Sched) Schedule() []int { return chosen(s.Decisions) }

// TraceString is the kept trace, one event per line.
func (s *Sched) TraceString() string { return strings.Join(s.Trace, "\n") }
