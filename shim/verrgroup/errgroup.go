// Package verrgroup mirrors golang.org/x/sync/errgroup on the scheduler.
package verrgroup

import (
	"context"

	"github.com/gotd/td/internal/verif/shim/vctx"
	"github.com/gotd/td/internal/verif/shim/vsched"
	"github.com/gotd/td/internal/verif/shim/vsync"
)

type Group struct {
	cancel  func(error)
	wg      vsync.WaitGroup
	sem     chan struct{}
	errOnce vsync.Once
	err     error
}

func WithContext(ctx context.Context) (*Group, context.Context) {
	ctx, cancel := vctx.WithCancelCause(ctx)
	return &Group{cancel: cancel}, ctx
}

func (g *Group) done() {
	if g.sem != nil {
		vsched.Recv(g.sem)
	}
	g.wg.Done()
}

func (g *Group) Wait() error {
	g.wg.Wait()
	if g.cancel != nil {
		g.cancel(g.err)
	}
	return g.err
}

func (g *Group) Go(f func() error) {
	if g.sem != nil {
		c := g.sem
		vsched.Send(c, func() { c <- struct{}{} })
	}
	g.wg.Add(1)
	vsched.Go(func() {
		defer g.done()
		if err := f(); err != nil {
			g.errOnce.Do(func() {
				g.err = err
				if g.cancel != nil {
					g.cancel(g.err)
				}
			})
		}
	})
}

func (g *Group) TryGo(f func() error) bool {
	if g.sem != nil {
		i, t := vsched.Select(true, vsched.Sd(g.sem))
		if i != 0 {
			return false
		}
		g.sem <- struct{}{}
		t.Done()
	}
	g.wg.Add(1)
	vsched.Go(func() {
		defer g.done()
		if err := f(); err != nil {
			g.errOnce.Do(func() {
				g.err = err
				if g.cancel != nil {
					g.cancel(g.err)
				}
			})
		}
	})
	return true
}

func (g *Group) SetLimit(n int) {
	if n < 0 {
		g.sem = nil
		return
	}
	g.sem = make(chan struct{}, n)
}
