// Package vuatomic mirrors the part of go.uber.org/atomic that td uses.
package vuatomic

import (
	"time"

	ua "go.uber.org/atomic"

	"github.com/gotd/td/internal/verif/shim/vsched"
)

// pt: scheduling point, then acquire+release on the variable (Go atomics are sequentially consistent).
func pt(w string, p any) { vsched.PointS(w); vsched.AcqRel(p) }

type Int64 struct{ v ua.Int64 }

func NewInt64(x int64) *Int64                   { r := &Int64{}; r.v.Store(x); return r }
func (i *Int64) Inc() int64                     { pt("a.add", i); return i.v.Inc() }
func (i *Int64) Dec() int64                     { pt("a.add", i); return i.v.Dec() }
func (i *Int64) Load() int64                    { pt("a.load", i); return i.v.Load() }
func (i *Int64) Store(x int64)                  { pt("a.store", i); i.v.Store(x) }
func (i *Int64) Add(x int64) int64              { pt("a.add", i); return i.v.Add(x) }
func (i *Int64) Sub(x int64) int64              { pt("a.add", i); return i.v.Sub(x) }
func (i *Int64) Swap(x int64) int64             { pt("a.swap", i); return i.v.Swap(x) }
func (i *Int64) CAS(o, n int64) bool            { pt("a.cas", i); return i.v.CompareAndSwap(o, n) }
func (i *Int64) CompareAndSwap(o, n int64) bool { pt("a.cas", i); return i.v.CompareAndSwap(o, n) }

type Int32 struct{ v ua.Int32 }

func NewInt32(x int32) *Int32                   { r := &Int32{}; r.v.Store(x); return r }
func (i *Int32) Inc() int32                     { pt("a.add", i); return i.v.Inc() }
func (i *Int32) Dec() int32                     { pt("a.add", i); return i.v.Dec() }
func (i *Int32) Load() int32                    { pt("a.load", i); return i.v.Load() }
func (i *Int32) Store(x int32)                  { pt("a.store", i); i.v.Store(x) }
func (i *Int32) Add(x int32) int32              { pt("a.add", i); return i.v.Add(x) }
func (i *Int32) Swap(x int32) int32             { pt("a.swap", i); return i.v.Swap(x) }
func (i *Int32) CAS(o, n int32) bool            { pt("a.cas", i); return i.v.CompareAndSwap(o, n) }
func (i *Int32) CompareAndSwap(o, n int32) bool { pt("a.cas", i); return i.v.CompareAndSwap(o, n) }

type Uint32 struct{ v ua.Uint32 }

func NewUint32(x uint32) *Uint32                  { r := &Uint32{}; r.v.Store(x); return r }
func (i *Uint32) Inc() uint32                     { pt("a.add", i); return i.v.Inc() }
func (i *Uint32) Dec() uint32                     { pt("a.add", i); return i.v.Dec() }
func (i *Uint32) Load() uint32                    { pt("a.load", i); return i.v.Load() }
func (i *Uint32) Store(x uint32)                  { pt("a.store", i); i.v.Store(x) }
func (i *Uint32) Add(x uint32) uint32             { pt("a.add", i); return i.v.Add(x) }
func (i *Uint32) Swap(x uint32) uint32            { pt("a.swap", i); return i.v.Swap(x) }
func (i *Uint32) CAS(o, n uint32) bool            { pt("a.cas", i); return i.v.CompareAndSwap(o, n) }
func (i *Uint32) CompareAndSwap(o, n uint32) bool { pt("a.cas", i); return i.v.CompareAndSwap(o, n) }

type Uint64 struct{ v ua.Uint64 }

func NewUint64(x uint64) *Uint64                  { r := &Uint64{}; r.v.Store(x); return r }
func (i *Uint64) Inc() uint64                     { pt("a.add", i); return i.v.Inc() }
func (i *Uint64) Load() uint64                    { pt("a.load", i); return i.v.Load() }
func (i *Uint64) Store(x uint64)                  { pt("a.store", i); i.v.Store(x) }
func (i *Uint64) Add(x uint64) uint64             { pt("a.add", i); return i.v.Add(x) }
func (i *Uint64) CAS(o, n uint64) bool            { pt("a.cas", i); return i.v.CompareAndSwap(o, n) }
func (i *Uint64) CompareAndSwap(o, n uint64) bool { pt("a.cas", i); return i.v.CompareAndSwap(o, n) }

type Bool struct{ v ua.Bool }

func NewBool(b bool) *Bool                    { r := &Bool{}; r.v.Store(b); return r }
func (b *Bool) Load() bool                    { pt("a.load", b); return b.v.Load() }
func (b *Bool) Store(x bool)                  { pt("a.store", b); b.v.Store(x) }
func (b *Bool) Swap(x bool) bool              { pt("a.swap", b); return b.v.Swap(x) }
func (b *Bool) Toggle() bool                  { pt("a.swap", b); return b.v.Toggle() }
func (b *Bool) CAS(o, n bool) bool            { pt("a.cas", b); return b.v.CompareAndSwap(o, n) }
func (b *Bool) CompareAndSwap(o, n bool) bool { pt("a.cas", b); return b.v.CompareAndSwap(o, n) }

type Duration struct{ v ua.Duration }

func NewDuration(x time.Duration) *Duration { r := &Duration{}; r.v.Store(x); return r }
func (d *Duration) Load() time.Duration     { pt("a.load", d); return d.v.Load() }
func (d *Duration) Store(x time.Duration)   { pt("a.store", d); d.v.Store(x) }

type String struct{ v ua.String }

func NewString(x string) *String { r := &String{}; r.v.Store(x); return r }
func (d *String) Load() string   { pt("a.load", d); return d.v.Load() }
func (d *String) Store(x string) { pt("a.store", d); d.v.Store(x) }

type Error struct{ v ua.Error }

func NewError(x error) *Error  { r := &Error{}; r.v.Store(x); return r }
func (d *Error) Load() error   { pt("a.load", d); return d.v.Load() }
func (d *Error) Store(x error) { pt("a.store", d); d.v.Store(x) }

type Time struct{ v ua.Time }

func (d *Time) Load() time.Time   { pt("a.load", d); return d.v.Load() }
func (d *Time) Store(x time.Time) { pt("a.store", d); d.v.Store(x) }

type Value = ua.Value

type Pointer[T any] struct{ v ua.Pointer[T] }

func NewPointer[T any](x *T) *Pointer[T]          { r := &Pointer[T]{}; r.v.Store(x); return r }
func (p *Pointer[T]) Load() *T                    { pt("a.load", p); return p.v.Load() }
func (p *Pointer[T]) Store(x *T)                  { pt("a.store", p); p.v.Store(x) }
func (p *Pointer[T]) Swap(x *T) *T                { pt("a.swap", p); return p.v.Swap(x) }
func (p *Pointer[T]) CompareAndSwap(o, n *T) bool { pt("a.cas", p); return p.v.CompareAndSwap(o, n) }
