// Package vctx mirrors package context on scheduler-aware primitives and
// virtual time. Context, CancelFunc and CancelCauseFunc are aliases of the
// std types so signatures stay compatible with un-instrumented packages.
package vctx

import (
	"context"
	"sort"
	"time"

	"github.com/gotd/td/internal/verif/shim/vsched"
)

type Context = context.Context
type CancelFunc = context.CancelFunc
type CancelCauseFunc = context.CancelCauseFunc

var Canceled = context.Canceled
var DeadlineExceeded = context.DeadlineExceeded

func Background() Context { return context.Background() }
func TODO() Context       { return context.TODO() }

func WithValue(parent Context, key, val any) Context { return context.WithValue(parent, key, val) }

type key struct{}

var selfKey key

var seq int

type cctx struct {
	parent   Context
	id       int
	done     chan struct{}
	err      error
	cause    error
	children map[*cctx]struct{}
	funcs    map[int]func()
	nfunc    int
	deadline time.Time
	hasDl    bool
	timer    *vsched.Timer
}

func (c *cctx) Deadline() (time.Time, bool) {
	if c.hasDl {
		return c.deadline, true
	}
	return c.parent.Deadline()
}
func (c *cctx) Done() <-chan struct{} { return c.done }
func (c *cctx) Err() error {
	// reading the error is a visible operation (it races with cancel)
	if vsched.Active() {
		vsched.PointS("ctx.err")
		vsched.Acquire(c.done) // Err synchronises with the cancellation (the std context takes its mutex)
	}
	return c.err
}
func (c *cctx) Value(k any) any {
	if k == &selfKey {
		return c
	}
	return c.parent.Value(k)
}

// AfterFunc makes std contexts derived from a cctx register with it instead
// of spawning a watcher goroutine (context.afterFuncer).
func (c *cctx) AfterFunc(f func()) func() bool {
	if c.err != nil {
		f()
		return func() bool { return false }
	}
	if c.funcs == nil {
		c.funcs = map[int]func(){}
	}
	c.nfunc++
	id := c.nfunc
	c.funcs[id] = f
	return func() bool {
		if _, ok := c.funcs[id]; ok {
			delete(c.funcs, id)
			return true
		}
		return false
	}
}

func (c *cctx) cancel(err, cause error) {
	if vsched.Active() {
		vsched.PointS("ctx.cancel")
	}
	c.cancelNoPoint(err, cause)
}

func (c *cctx) cancelNoPoint(err, cause error) {
	if c.err != nil {
		return
	}
	c.err = err
	if cause == nil {
		cause = err
	}
	c.cause = cause
	vsched.MarkClosed(c.done)
	close(c.done)
	if c.timer != nil {
		c.timer.StopNoPoint()
	}
	kids := make([]*cctx, 0, len(c.children))
	for ch := range c.children {
		kids = append(kids, ch)
	}
	sort.Slice(kids, func(i, j int) bool { return kids[i].id < kids[j].id })
	c.children = nil
	for _, ch := range kids {
		ch.cancelNoPoint(err, cause)
	}
	ids := make([]int, 0, len(c.funcs))
	for id := range c.funcs {
		ids = append(ids, id)
	}
	sort.Ints(ids)
	fs := c.funcs
	c.funcs = nil
	for _, id := range ids {
		fs[id]()
	}
	if p, ok := c.parent.Value(&selfKey).(*cctx); ok && p.children != nil {
		delete(p.children, c)
	}
}

func newChild(parent Context) *cctx {
	if parent == nil {
		panic("cannot create context from nil parent")
	}
	seq++
	c := &cctx{parent: parent, id: seq, done: make(chan struct{})}
	if p, ok := parent.Value(&selfKey).(*cctx); ok {
		if p.err != nil {
			c.err, c.cause = p.err, p.cause
			vsched.MarkClosed(c.done)
			close(c.done)
			return c
		}
		if p.children == nil {
			p.children = map[*cctx]struct{}{}
		}
		p.children[c] = struct{}{}
	} else if parent.Done() != nil {
		// a cancellable std context as parent: propagate through context.AfterFunc
		// (runs in a goroutine the scheduler does not control) is not supported.
		if vsched.Active() {
			panic("vctx: cancellable std context used as parent inside an exploration; build harness contexts with vctx")
		}
		stop := context.AfterFunc(parent, func() { c.cancelNoPoint(parent.Err(), context.Cause(parent)) })
		_ = stop
	}
	return c
}

func WithCancel(parent Context) (Context, CancelFunc) {
	c := newChild(parent)
	return c, func() { c.cancel(context.Canceled, nil) }
}

func WithCancelCause(parent Context) (Context, CancelCauseFunc) {
	c := newChild(parent)
	return c, func(cause error) { c.cancel(context.Canceled, cause) }
}

func WithDeadlineCause(parent Context, d time.Time, cause error) (Context, CancelFunc) {
	c := newChild(parent)
	if cur, ok := parent.Deadline(); !ok || d.Before(cur) {
		c.deadline, c.hasDl = d, true
	}
	if c.err == nil && c.hasDl {
		dur := d.Sub(vsched.Now())
		if dur <= 0 {
			c.cancelNoPoint(context.DeadlineExceeded, cause)
		} else {
			c.timer = vsched.AfterFuncInline(dur, func() { c.cancelNoPoint(context.DeadlineExceeded, cause) })
		}
	}
	return c, func() { c.cancel(context.Canceled, nil) }
}

func WithDeadline(parent Context, d time.Time) (Context, CancelFunc) {
	return WithDeadlineCause(parent, d, nil)
}

func WithTimeout(parent Context, d time.Duration) (Context, CancelFunc) {
	return WithDeadlineCause(parent, vsched.Now().Add(d), nil)
}

func WithTimeoutCause(parent Context, d time.Duration, cause error) (Context, CancelFunc) {
	return WithDeadlineCause(parent, vsched.Now().Add(d), cause)
}

type withoutCancel struct{ c Context }

func (withoutCancel) Deadline() (time.Time, bool) { return time.Time{}, false }
func (withoutCancel) Done() <-chan struct{}       { return nil }
func (withoutCancel) Err() error                  { return nil }
func (w withoutCancel) Value(k any) any {
	if k == &selfKey {
		return nil
	}
	return w.c.Value(k)
}

func WithoutCancel(parent Context) Context { return withoutCancel{parent} }

func Cause(c Context) error {
	if cc, ok := c.Value(&selfKey).(*cctx); ok {
		if vsched.Active() {
			vsched.PointS("ctx.cause")
			vsched.Acquire(cc.done)
		}
		return cc.cause
	}
	return context.Cause(c)
}

// AfterFunc mirrors context.AfterFunc: f runs in its own managed thread after ctx is done.
func AfterFunc(ctx Context, f func()) (stop func() bool) {
	cc, ok := ctx.Value(&selfKey).(*cctx)
	if !ok {
		if ctx.Done() == nil {
			return func() bool { return true }
		}
		return context.AfterFunc(ctx, f)
	}
	return cc.AfterFunc(func() { vsched.Go(f) })
}
