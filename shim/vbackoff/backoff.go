// Package vbackoff mirrors github.com/cenkalti/backoff/v4: types are aliases,
// the retry loops are re-implemented on scheduler-aware waits and virtual time.
package vbackoff

import (
	"context"
	"errors"
	"time"

	"github.com/cenkalti/backoff/v4"

	"github.com/gotd/td/internal/verif/shim/vsched"
)

type (
	BackOff                = backoff.BackOff
	BackOffContext         = backoff.BackOffContext
	ExponentialBackOff     = backoff.ExponentialBackOff
	ConstantBackOff        = backoff.ConstantBackOff
	ZeroBackOff            = backoff.ZeroBackOff
	StopBackOff            = backoff.StopBackOff
	PermanentError         = backoff.PermanentError
	Operation              = backoff.Operation
	Notify                 = backoff.Notify
	Clock                  = backoff.Clock
	ExponentialBackOffOpts = backoff.ExponentialBackOffOpts
)

const (
	Stop                       = backoff.Stop
	DefaultInitialInterval     = backoff.DefaultInitialInterval
	DefaultRandomizationFactor = backoff.DefaultRandomizationFactor
	DefaultMultiplier          = backoff.DefaultMultiplier
	DefaultMaxInterval         = backoff.DefaultMaxInterval
	DefaultMaxElapsedTime      = backoff.DefaultMaxElapsedTime
)

var SystemClock = backoff.SystemClock

func Permanent(err error) error { return backoff.Permanent(err) }
func NewExponentialBackOff(opts ...ExponentialBackOffOpts) *ExponentialBackOff {
	return backoff.NewExponentialBackOff(opts...)
}
func NewConstantBackOff(d time.Duration) *ConstantBackOff       { return backoff.NewConstantBackOff(d) }
func WithContext(b BackOff, ctx context.Context) BackOffContext { return backoff.WithContext(b, ctx) }
func WithMaxRetries(b BackOff, max uint64) BackOff              { return backoff.WithMaxRetries(b, max) }

func getContext(b BackOff) context.Context {
	if cb, ok := b.(BackOffContext); ok {
		return cb.Context()
	}
	return context.Background()
}

func Retry(o Operation, b BackOff) error { return RetryNotify(o, b, nil) }

func RetryNotify(operation Operation, b BackOff, notify Notify) error {
	ctx := getContext(b)
	b.Reset()
	for {
		err := operation()
		if err == nil {
			return nil
		}
		var permanent *PermanentError
		if errors.As(err, &permanent) {
			return permanent.Err
		}
		next := b.NextBackOff()
		if next == Stop {
			if cerr := ctx.Err(); cerr != nil {
				return cerr
			}
			return err
		}
		if notify != nil {
			notify(err, next)
		}
		t := vsched.NewTimer(next)
		done := ctx.Done()
		i, tok := vsched.Select(false, vsched.R(done), vsched.R(t.C))
		switch i {
		case 0:
			<-done
			tok.Done()
			t.Stop()
			return ctx.Err()
		case 1:
			<-t.C
			tok.Done()
		}
	}
}
